#!/usr/bin/env python3
"""Print the prompt for a seeding sub-agent: only the property text and its worktree."""
import json, sys
pid = sys.argv[1]
wt = f"/tmp/seed-{pid}"
for line in open("/verif/properties.jsonl"):
    p = json.loads(line)
    if p["id"] == pid:
        break
print(f"""You are helping to evaluate a verification effort for the open-source project StepUp Core (a Python incremental build tool: director process, SQLite workflow graph, step/file state machines, hash-based skipping, named globs, asyncio RPC). You have your own scratch git worktree of the repository at {wt} (a checkout of the current HEAD). Work ONLY inside {wt}. Never read, list or modify /repo or /verif, and do not look for other checkers: your work must be independent.

Here is a semantic property that the code base is supposed to satisfy:

TITLE: {p['title']}
STATEMENT: {p['statement']}
QUANTIFIED OVER: {p['quantifier']['text']}
CODE AREAS: {', '.join(p['anchors']['files'])}
MECHANISMS MEANT TO ENFORCE IT: {'; '.join(m['name'] for m in p['anchors']['mechanism'])}

YOUR TASK: make a realistic, small change to the source code under {wt}/stepup/core/ (the kind of regression a maintainer could plausibly introduce: a dropped condition, a wrong join, a reordered step, an off-by-one, two sites that each look fine alone) that BREAKS this property, while
  (a) the package still imports/compiles, and
  (b) the existing unit tests still pass. Run them with:
      cd {wt} && PYTHONPATH={wt} /venv/bin/python -m pytest -q -p no:cacheprovider -x -k "not test_example" 
      (PYTHONPATH is essential: without it the tests import the installed copy instead of your worktree. ~1720 tests, ~15 s. Do not run two pytest invocations at once. Do not edit or delete any test.)
  (c) the breakage needs something SPECIFIC to manifest: a particular interleaving, a crash or fault at a particular point, a multi-step sequence of operations, an unusual input, or two cooperating code sites. It must NOT be something that any ordinary use would expose at once (a build of a trivial project must still work).

Then write a DEMONSTRATION: a self-contained Python program {wt}/SEED/demo.py that exits with status 1 (printing what went wrong) when run against your modified code and exits 0 against the unmodified code. Run it as `cd {wt} && PYTHONPATH={wt} /venv/bin/python SEED/demo.py` for the modified code; verify the unmodified behaviour with `git -C {wt} stash` / `git -C {wt} stash pop` around a second run (keep SEED/ untracked so stash leaves it alone). The demo may use the package's Python API directly (e.g. stepup.core.workflow.Workflow on an in-memory DBSession as the unit tests in tests/conftest.py and tests/test_workflow.py do), may run a real `stepup build` in a temp directory via `{'/venv/bin/stepup'}` if you prefer (env STEPUP_DEBUG=1 recommended), or anything else, but must be deterministic and finish within about a minute.

Deliverables, all inside {wt}/SEED/ :
  - patch.diff : output of `git -C {wt} diff -- stepup` (only your source change, no tests)
  - demo.py : the demonstration
  - meta.json : {{"property": "{pid}", "summary": "<one sentence: what was changed>", "needs": "<what specific situation is needed for it to manifest>", "tests_pass": true/false, "demo_fails_with_change": true/false, "demo_passes_without_change": true/false}}

Be honest in meta.json: if the tests do not all pass with your change (ignoring tests that also fail without it), say so, and try another change. Prefer subtle semantic changes over blunt ones. Finish by replying with the contents of meta.json and a short description of the change.""")
