#!/venv/bin/python
"""Replay a history case file and print what happened at every stage."""
import asyncio, json, os, sys
sys.path.insert(0, "/verif")
os.environ["STEPUP_DEBUG"] = "1"
from harness import specgen, history as H
from harness.worker import Ctx
from harness.common import from_jsonable
from harness.sim import canonical_graph

data = json.load(open(sys.argv[1]))
case = from_jsonable(data["case"])
verbose = len(sys.argv) > 2
ctx = Ctx("SHOW", "quick", 1, 0, 1)
print("MESSAGE:", data.get("message", "")[:600])

def after(i, rec, ledger):
    st = case["stages"][i]
    print(f"\n===== STAGE {i} edit={st['edit']} build={ {k: v for k, v in st['build'].items() if k != 'choices'} }")
    files = specgen.render(st["spec"])
    for p in sorted(files):
        if p.endswith(".py"):
            print(f"  [{p}] {files[p][0].splitlines()[1][:400]}")
    print("  sources:", {p: c.strip() for p, c in st["spec"]["sources"].items()}, "env:", st["spec"]["env"])
    print("  rc:", rec.result.returncode, "err:", rec.result.serve_error and rec.result.serve_error[:2])
    for t, d, pages in rec.result.events:
        print("   ", t, d[:160])
        if verbose and t in ("FAIL", "ERROR", "WARNING", "RESCHEDULE"):
            for title, body in pages: print("        |", title, ":", body[:300].replace("\n", "\n        | "))
    for r in rec.result.rejections: print("    REJECTED", r)
    for r in rec.result.internal_errors: print("    INTERNAL", r[:4])
    if verbose:
        print(canonical_graph(rec.result.graph))

async def go():
    records, ledger, d = await H.run_history(case, ctx, after_stage=after)
    if len(sys.argv) > 3:
        srec, d2 = await H.scratch_build(case["stages"][-1]["spec"], ctx)
        print("\n===== SCRATCH rc", srec.result.returncode)
        for t, dd, pages in srec.result.events:
            print("   ", t, dd[:160])
            if t in ("FAIL", "ERROR", "WARNING"):
                for title, body in pages: print("        |", title, ":", body[:300].replace("\n", "\n        | "))
        print(canonical_graph(srec.result.graph))
asyncio.run(go())
ctx.close()
