#!/venv/bin/python
"""Debug helper: generate histories, run them, print the first that times out / violates."""
import asyncio, json, os, sys, time
sys.path.insert(0, "/verif")
os.environ["STEPUP_DEBUG"] = "1"
from hypothesis import HealthCheck, Phase, given, seed, settings
from harness import specgen, history as H
from harness.worker import Ctx
from harness.common import Recorder, Violation

n = int(sys.argv[1]); sd = int(sys.argv[2]) if len(sys.argv) > 2 else 1
ctx = Ctx("DBG", "quick", sd, 0, 1)
found = []

@seed(sd)
@settings(max_examples=n, database=None, deadline=None, suppress_health_check=list(HealthCheck), phases=[Phase.generate])
@given(specgen.histories())
def t(case):
    if found: return
    async def go():
        records, ledger, d = await H.run_history(case, ctx, timeout=8.0)
        for i, r in enumerate(records):
            if r.result.timed_out or r.result.serve_error:
                found.append((case, i, r))
                return
        H.cleanup_dir(ctx, d)
    asyncio.run(go())
t()
if found:
    case, i, r = found[0]
    print("STAGE", i, "timed_out", r.result.timed_out, "err", r.result.serve_error)
    print(json.dumps(case["stages"][i]["spec"], indent=1)[:3000])
    print("BUILD", {k: v for k, v in case["stages"][i]["build"].items()})
    for e in r.result.events: print("  ", e[0], e[1][:200])
    for e in r.result.steplog[-40:]: print("  LOG", {k: v for k, v in e.items() if k != "spec"})
    print("parked", list(r.result.session.pump.parked), "running", list(r.result.session.running))
    if r.result.tables:
        for s in r.result.tables["step"]:
            print("  STEP", s)
    json.dump(case, open("/tmp/dbg_case.json", "w"))
ctx.close()
