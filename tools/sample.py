#!/venv/bin/python
"""Developer helper: run N generated cases of one sub-check without shrinking and bucket the
violations by signature. Usage: tools/sample.py C17 nglob_vs_stdlib 3000 [seed]"""
import sys
import time

sys.path.insert(0, "/verif")
from hypothesis import HealthCheck, Phase, given, seed, settings  # noqa: E402

from harness.common import Recorder, Violation  # noqa: E402
from harness.worker import Ctx, call_check, load_module  # noqa: E402

prop, subname, n = sys.argv[1], sys.argv[2], int(sys.argv[3])
sd = int(sys.argv[4]) if len(sys.argv) > 4 else 1
mod = load_module(prop)
sub = next(s for s in mod.subchecks("quick") if s.name == subname)
ctx = Ctx(prop, "quick", sd, 0, 1)
rec = Recorder()
sigs = {}
count = [0]
first_cases = {}
strategy = sub.strategy() if callable(sub.strategy) else sub.strategy


@seed(sd)
@settings(max_examples=n, database=None, deadline=None,
          suppress_health_check=list(HealthCheck), phases=[Phase.generate])
@given(strategy)
def t(case):
    count[0] += 1
    import signal

    def _alarm(signum, frame):
        import traceback
        print("SLOW CASE:", repr(case)[:3000])
        traceback.print_stack(frame)
        raise SystemExit(3)

    signal.signal(signal.SIGALRM, _alarm)
    signal.alarm(int(__import__("os").environ.get("SLOW_S", "20")))
    try:
        call_check(sub, case, rec, ctx)
    except Violation as v:
        sigs.setdefault(v.signature, []).append(v.message)
        cur = first_cases.get(v.signature)
        if cur is None or len(repr(case)) < len(repr(cur[0])):
            first_cases[v.signature] = (case, v.message)
    finally:
        signal.alarm(0)


t0 = time.time()
try:
    t()
finally:
    dt = time.time() - t0
    print(f"{count[0]} cases in {dt:.1f}s ({1000 * dt / max(count[0], 1):.1f} ms/case)")
    for s, msgs in sigs.items():
        print(f"== {s}: {len(msgs)}")
        for m in sorted(msgs, key=len)[:5]:
            print("   ", m[:700])
    if __import__("os").environ.get("DUMP"):
        import json
        from harness.common import to_jsonable
        for sig, (case, msg) in first_cases.items():
            name = "sample-" + sig.split("/", 1)[1].replace("/", "_")[:80] + ".json"
            path = f"/verif/replays/{prop}/{name}"
            __import__("os").makedirs(f"/verif/replays/{prop}", exist_ok=True)
            with open(path, "w") as fh:
                json.dump({"property": prop, "subcheck": subname, "signature": sig,
                           "message": msg, "case": to_jsonable(case)}, fh, indent=1,
                          sort_keys=True)
            print("dumped", path)
    print("events:", dict(sorted(rec.events.items())), "nontrivial:", len(rec.nontrivial))
    ctx.close()
