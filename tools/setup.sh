#!/bin/sh
# Offline setup: make sure hypothesis is importable next to the repository's packages.
set -e
/venv/bin/python -c "import hypothesis" 2>/dev/null || \
  /venv/bin/pip install -q --no-index --find-links /opt/veriftools/wheels hypothesis
/venv/bin/python -c "import hypothesis, stepup.core; print('setup ok: hypothesis', hypothesis.__version__)"
