#!/usr/bin/env python3
"""Regenerate MANIFEST.json from the property modules that exist (props/cNN.py with MANIFEST dict)."""
import importlib
import json
import os
import sys

VERIF = os.path.dirname(os.path.dirname(os.path.abspath(__file__)))
sys.path.insert(0, VERIF)

ENGINES = [
    {"name": "E1-SimStepUp", "path": "harness/sim.py",
     "kind_free_text": "real director (serve()) in-process with simulated step programs, "
                       "harness-owned schedule, crash images, commit observers"},
    {"name": "E2-GraphMachine", "path": "harness/graphmachine.py",
     "kind_free_text": "generated operation sequences on Workflow+Scheduler over :memory: SQLite"},
    {"name": "E3-rpcfuzz", "path": "harness/rpcfuzz.py",
     "kind_free_text": "in-memory stream transport for rpc.py fed at generated cut points"},
    {"name": "E4-pure", "path": "props/",
     "kind_free_text": "plain Hypothesis @given properties on pure modules"},
]


def main():
    ids = [json.loads(line)["id"] for line in open(os.path.join(VERIF, "properties.jsonl"))]
    checks = []
    not_applicable = []
    serves = {}
    for pid in ids:
        path = os.path.join(VERIF, "props", f"{pid.lower()}.py")
        if not os.path.exists(path):
            not_applicable.append({"property_id": pid,
                                   "reason": "not claimed yet: the generated check for this "
                                             "property has not been built/validated in this "
                                             "revision (design in DESIGN.md section 3)"})
            continue
        mod = importlib.import_module(f"props.{pid.lower()}")
        m = getattr(mod, "MANIFEST", {})
        if m.get("not_applicable"):
            not_applicable.append({"property_id": pid, "reason": m["not_applicable"]})
            continue
        level = getattr(mod, "LEVEL", "exploration")
        checks.append({
            "property_id": pid,
            "quick_cmd": f"./check {pid} --tier quick",
            "thorough_cmd": f"./check {pid} --tier thorough",
            "evidence_file": f"evidence/{pid}.json",
            "replay_cmd_template": f"./check {pid} --replay {{path}}",
            "engine": m.get("engine", "E4-pure"),
            "level_claimed": {
                "category": level,
                "text": m.get("level_text", ""),
                "design_ref": m.get("design_ref", f"DESIGN.md section 3, {pid}"),
            },
            "level_note": m.get("level_note", "; ".join(getattr(mod, "ASSUMPTIONS", []))),
            "technique": m.get("technique", "property-based testing (Hypothesis)"),
        })
        serves.setdefault(m.get("engine", "E4-pure"), []).append(pid)
    engines = []
    for e in ENGINES:
        e = dict(e)
        e["serves_properties"] = serves.get(e["name"], [])
        engines.append(e)
    manifest = {
        "version": 1,
        "setup_cmd": "sh tools/setup.sh",
        "hooks": {
            "guard": "STEPUP_CORE_VERIF",
            "enable": "no source hooks: checks import /repo's working tree (editable install in "
                      "/venv) and substitute a few names at run time from the harness side "
                      "(DESIGN.md 2.7); the guard variable is reserved and unused",
            "baseline_off_cmd": "cd /repo && /venv/bin/python -m pytest -ra -q -p no:cacheprovider "
                                "--timeout=900 --continue-on-collection-errors",
            "source_commits": [],
            "add_only": True,
        },
        "engines": engines,
        "checks": checks,
        "not_applicable": not_applicable,
        "notes": "One command per property and tier: ./check <ID> --tier quick|thorough "
                 "[--seed N | VERIF_SEED]. Exit 0 ok / 1 VIOLATION / 2 harness error. "
                 "known_findings.json lists recorded genuine defects by signature.",
    }
    with open(os.path.join(VERIF, "MANIFEST.json"), "w") as fh:
        json.dump(manifest, fh, indent=1)
        fh.write("\n")
    print(f"{len(checks)} checks, {len(not_applicable)} not applicable")


if __name__ == "__main__":
    main()
