#!/venv/bin/python
"""Replay a history case with the C09/C10 instrumentation and print, for the first finding, the
creator chain of the step concerned over the last commits. usage: dbg_inv.py replay.json [label]"""
import asyncio, json, os, sys
sys.path.insert(0, "/verif")
from harness import history as H, invariants as inv
from harness.worker import Ctx
from harness.common import from_jsonable
from harness.instrument import Instrument

data = json.load(open(sys.argv[1]))
case = from_jsonable(data["case"])
want = sys.argv[2] if len(sys.argv) > 2 else None
ctx = Ctx("DBG", "quick", 1, 0, 1)
history = []


class Dbg(Instrument):
    def on_commit(self, con, ncommit):
        n0 = len(self.findings)
        super().on_commit(con, ncommit)
        history.append((ncommit, self.prev, asyncio.current_task() is self.pop_task))
        if len(self.findings) > n0 and n0 == 0:
            print("FINDING", self.findings[0])
            report()


def chain(view, i):
    out = []
    while i in view.steps:
        s = view.steps[i]
        out.append(f"{view.nodes[i]['label']!r}[{inv.STEP_NAMES[s['state']]} hold={s['_holding']} "
                   f"safe={s['_safe']}/{s['_safe_ignoring_hold']} chk={s['_check_safe']} "
                   f"det={view.nodes[i]['detached']}]")
        i = view.nodes[i]["creator"]
    return " <- ".join(out)


def report():
    ncommit, view, _ = history[-1]
    label = want
    if label is None:
        msg = instruments[-1].findings[0][1]
        label = msg.split("step:")[1].split(" has ")[0].split(";")[0].strip() if "step:" in msg else None
    print("LABEL", repr(label))
    for nc, v, is_pop in history[-25:]:
        ids = [i for i, n in v.nodes.items() if n["kind"] == "step" and n["label"] == label]
        for i in ids:
            print(f"  commit {nc}{' POP' if is_pop else ''}: {chain(v, i)}")


instruments = []


def session_setup(session):
    ins = Dbg(wellformed=True, dispatch=True)
    ins.install(session)
    instruments.append(ins)
    history.clear()


def after(i, r, ledger):
    print(f"== stage {i} rc={r.result.returncode} findings={instruments[-1].findings[:3]}")
    for t, d, pages in r.result.events:
        print("   ", t, d[:120])


async def main():
    await H.run_history(case, ctx, after_stage=after, session_setup=session_setup)

try:
    asyncio.run(main())
finally:
    ctx.close()
