#!/usr/bin/env python3
"""Sensitivity helper: apply a patch to a scratch worktree of /repo and run checks against it.

usage: tools/mutant.py <patch.diff> <PROP> [<PROP> ...] [--seed N] [--keep]
The worktree lives under /tmp and is removed afterwards; replays and evidence of these runs go to
a temporary directory, never into /verif.
"""
import os
import shutil
import subprocess
import sys
import tempfile

args = [a for a in sys.argv[1:] if not a.startswith("--")]
seed = "1"
if "--seed" in sys.argv:
    seed = sys.argv[sys.argv.index("--seed") + 1]
    args.remove(seed)
patch, props = os.path.abspath(args[0]), args[1:]
wt = tempfile.mkdtemp(prefix="mut-", dir="/tmp")
os.rmdir(wt)
out = tempfile.mkdtemp(prefix="mutout-", dir="/tmp")
try:
    subprocess.run(["git", "-C", "/repo", "worktree", "add", "--detach", wt, "HEAD"], check=True,
                   capture_output=True)
    if patch.endswith(".json"):
        import json

        for edit in json.load(open(patch))["edits"]:
            path = os.path.join(wt, edit["file"])
            text = open(path).read()
            if text.count(edit["old"]) != 1:
                print("MUTANT DOES NOT APPLY (old text found", text.count(edit["old"]), "times):",
                      edit["file"])
                sys.exit(2)
            open(path, "w").write(text.replace(edit["old"], edit["new"]))
    else:
        r = subprocess.run(["git", "-C", wt, "apply", patch], capture_output=True, text=True)
        if r.returncode != 0:
            print("PATCH DOES NOT APPLY:", r.stderr)
            sys.exit(2)
    env = dict(os.environ, PYTHONPATH=wt, VERIF_REPLAY_DIR=os.path.join(out, "replays"),
               VERIF_EVIDENCE_DIR=os.path.join(out, "evidence"), VERIF_SEED=seed)
    for prop in props:
        r = subprocess.run(["/verif/check", prop, "--tier", "quick"], env=env, capture_output=True,
                           text=True)
        lines = [ln for ln in r.stdout.splitlines()
                 if ln.startswith(("VIOLATION", "OK", "  signature", "KNOWN")) or "HARNESS" in ln]
        verdict = "CAUGHT" if r.returncode == 1 else ("MISSED" if r.returncode == 0 else "ERROR")
        print(f"[{os.path.basename(patch)}] {prop}: {verdict} (exit {r.returncode})")
        for ln in lines[:6]:
            print("    " + ln[:300])
        if r.returncode == 2:
            print(r.stderr[:2500])
finally:
    subprocess.run(["git", "-C", "/repo", "worktree", "remove", "--force", wt], capture_output=True)
    shutil.rmtree(wt, ignore_errors=True)
    subprocess.run(["git", "-C", "/repo", "worktree", "prune"], capture_output=True)
    if "--keep" not in sys.argv:
        shutil.rmtree(out, ignore_errors=True)
    else:
        print("outputs kept in", out)
