#!/usr/bin/env python3
"""Confirm a seeded change produced by a sub-agent, store it under /verif/seeded/<id>/, and run
the registered quick checks against it.

usage: tools/seeded.py confirm <seed-dir> <id>         (seed-dir contains patch.diff, demo.py, meta.json)
       tools/seeded.py run <id> [PROP ...] [--seed N]   (applies to /repo, runs checks, undoes)
"""
import json
import os
import shutil
import subprocess
import sys
import tempfile

PY = "/venv/bin/python"
TESTS = [PY, "-m", "pytest", "-q", "-p", "no:cacheprovider", "-x", "-k", "not test_example"]


def sh(cmd, **kw):
    return subprocess.run(cmd, capture_output=True, text=True, **kw)


def confirm(seed_dir, sid):
    dest = f"/verif/seeded/{sid}"
    os.makedirs(dest, exist_ok=True)
    for name in ("patch.diff", "demo.py", "meta.json"):
        shutil.copy(os.path.join(seed_dir, name), os.path.join(dest, name))
    wt = tempfile.mkdtemp(prefix="confirm-", dir="/tmp")
    os.rmdir(wt)
    ran = []
    try:
        sh(["git", "-C", "/repo", "worktree", "add", "--detach", wt, "HEAD"], check=True)
        env = dict(os.environ, PYTHONPATH=wt, STEPUP_DEBUG="1")
        os.makedirs(f"{wt}/SEED", exist_ok=True)
        shutil.copy(f"{dest}/demo.py", f"{wt}/SEED/demo.py")
        r0 = sh([PY, "SEED/demo.py"], cwd=wt, env=env, timeout=600)
        ran.append({"cmd": "demo.py on unchanged tree", "exit": r0.returncode})
        ra = sh(["git", "-C", wt, "apply", f"{dest}/patch.diff"])
        if ra.returncode != 0:
            print("patch does not apply:", ra.stderr)
            return False
        env_t = dict(env)
        env_t.pop("STEPUP_DEBUG")
        for _attempt in range(3):  # timing-sensitive tests flake when the machine is loaded
            rt = sh(TESTS, cwd=wt, env=env_t, timeout=1800)
            if rt.returncode == 0:
                break
        tail = rt.stdout.strip().splitlines()[-1] if rt.stdout.strip() else rt.stderr[-300:]
        ran.append({"cmd": "pytest -k 'not test_example' with the change", "exit": rt.returncode,
                    "tail": tail})
        r1 = sh([PY, "SEED/demo.py"], cwd=wt, env=env, timeout=600)
        ran.append({"cmd": "demo.py with the change", "exit": r1.returncode,
                    "tail": (r1.stdout + r1.stderr)[-600:]})
        ok = r0.returncode == 0 and rt.returncode == 0 and r1.returncode != 0
        meta = json.load(open(f"{dest}/meta.json"))
        meta["confirmed"] = ok
        meta["confirmation_runs"] = ran
        json.dump(meta, open(f"{dest}/meta.json", "w"), indent=1)
        print(f"[{sid}] confirmed={ok}")
        for r in ran:
            print("   ", r["cmd"], "-> exit", r["exit"], r.get("tail", "")[:200].replace("\n", " | "))
        return ok
    finally:
        sh(["git", "-C", "/repo", "worktree", "remove", "--force", wt])
        shutil.rmtree(wt, ignore_errors=True)
        sh(["git", "-C", "/repo", "worktree", "prune"])


def run(sid, props, seed="1"):
    dest = f"/verif/seeded/{sid}"
    meta = json.load(open(f"{dest}/meta.json"))
    props = props or [meta["property"]]
    status = sh(["git", "-C", "/repo", "status", "--porcelain"]).stdout.strip()
    if status:
        print("refusing: /repo has local changes:\n" + status)
        return
    out = tempfile.mkdtemp(prefix="seedout-", dir="/tmp")
    try:
        ra = sh(["git", "-C", "/repo", "apply", f"{dest}/patch.diff"])
        if ra.returncode != 0:
            print("patch does not apply to /repo:", ra.stderr)
            return
        env = dict(os.environ, VERIF_REPLAY_DIR=f"{out}/replays", VERIF_EVIDENCE_DIR=f"{out}/evidence",
                   VERIF_SEED=seed)
        results = meta.setdefault("check_results", {})
        for prop in props:
            r = sh(["/verif/check", prop, "--tier", "quick"], env=env)
            verdict = {0: "MISSED", 1: "CAUGHT"}.get(r.returncode, "ERROR")
            sigs = [ln.strip() for ln in r.stdout.splitlines() if ln.strip().startswith("signature:")]
            print(f"[{sid}] {prop}: {verdict}", sigs[:3])
            if verdict == "ERROR":
                print(r.stderr[:1500])
            results[prop] = {"verdict": verdict, "signatures": sigs[:3], "seed": seed}
        json.dump(meta, open(f"{dest}/meta.json", "w"), indent=1)
    finally:
        sh(["git", "-C", "/repo", "checkout", "--", "."])
        shutil.rmtree(out, ignore_errors=True)
        left = sh(["git", "-C", "/repo", "status", "--porcelain"]).stdout.strip()
        if left:
            print("WARNING: /repo not clean after undo:", left)


if __name__ == "__main__":
    if sys.argv[1] == "confirm":
        confirm(sys.argv[2], sys.argv[3])
    else:
        args = sys.argv[2:]
        seed = "1"
        if "--seed" in args:
            seed = args[args.index("--seed") + 1]
            args = [a for a in args if a not in ("--seed", seed)]
        run(args[0], args[1:], seed)
