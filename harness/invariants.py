"""Independent re-statement of the stored-workflow invariants (C09) and of the dispatch
definitions (C10), evaluated in plain Python over a dump of the tables.

Nothing here calls StepUp code: the numeric constants are the documented enum values
(`stepup.core.enums`), asserted once against the real enums by `check_constants()`.
"""

# FileState
UNDECLARED, UNCONFIRMED, MISSING, CONFIRMED, PLANNED, BUILT, OUTDATED, VOLATILE = range(11, 19)
# StepState
PENDING, RUNNING, SUCCEEDED, FAILED, CHECKING = 21, 22, 23, 24, 25
# Need
OPTIONAL, DEFAULT, TARGET, PLAN = 31, 32, 33, 34

STATIC_ROLE = {UNCONFIRMED, MISSING, CONFIRMED}
OUTPUT_ROLE = {PLANNED, BUILT, OUTDATED}
VOLATILE_ROLE = {VOLATILE}
HASH_REQUIRED = {CONFIRMED, BUILT, OUTDATED}
HASH_FORBIDDEN = {MISSING, PLANNED, VOLATILE}

STEP_NAMES = {PENDING: "PENDING", RUNNING: "RUNNING", SUCCEEDED: "SUCCEEDED", FAILED: "FAILED",
              CHECKING: "CHECKING"}
FILE_NAMES = {UNDECLARED: "UNDECLARED", UNCONFIRMED: "UNCONFIRMED", MISSING: "MISSING",
              CONFIRMED: "CONFIRMED", PLANNED: "PLANNED", BUILT: "BUILT", OUTDATED: "OUTDATED",
              VOLATILE: "VOLATILE"}


def check_constants():
    from stepup.core.enums import FileState, Need, StepState

    assert [s.value for s in (FileState.UNDECLARED, FileState.UNCONFIRMED, FileState.MISSING,
                              FileState.CONFIRMED, FileState.PLANNED, FileState.BUILT,
                              FileState.OUTDATED, FileState.VOLATILE)] == list(range(11, 19))
    assert (StepState.PENDING.value, StepState.RUNNING.value, StepState.SUCCEEDED.value,
            StepState.FAILED.value, StepState.CHECKING.value) == (21, 22, 23, 24, 25)
    assert (Need.OPTIONAL.value, Need.DEFAULT.value, Need.TARGET.value, Need.PLAN.value) == (
        31, 32, 33, 34)


def role_of(state):
    if state in STATIC_ROLE:
        return "static"
    if state in OUTPUT_ROLE:
        return "output"
    if state in VOLATILE_ROLE:
        return "volatile"
    return None


class View:
    """Indexes over one dump of the tables."""

    def __init__(self, tables):
        self.tables = tables
        self.nodes = {n["i"]: n for n in tables["node"]}
        self.files = {f["node"]: f for f in tables["file"]}
        self.steps = {s["node"]: s for s in tables["step"]}
        self.dynamic = {d["i"] for d in tables["dynamic_dep"]}
        self.deps = tables["dependency"]
        self.sources = {}  # sink -> [(source, dep_i)]
        self.sinks = {}  # source -> [(sink, dep_i)]
        for d in self.deps:
            self.sources.setdefault(d["sink"], []).append((d["source"], d["i"]))
            self.sinks.setdefault(d["source"], []).append((d["sink"], d["i"]))
        self.has_hash = {h["node"] for h in tables["step_hash"]}
        self.resources = {}
        for r in tables["step_resource"]:
            self.resources.setdefault(r["node"], {})[r["name"]] = r["units"]

    def label(self, i):
        n = self.nodes.get(i)
        return f"{n['kind']}:{n['label']}" if n else f"<node {i}>"


# ---------------------------------------------------------------------------------------------
# C09: well-formedness of one committed state


def wellformed(view):
    """Return [(signature suffix, message)] for every violated invariant."""
    out = []
    nodes, files, steps = view.nodes, view.files, view.steps
    # (a) detached exactly when not reachable from the root through creator links
    roots = [n for n in nodes.values() if n["kind"] == "root"]
    if len(roots) != 1 or roots[0]["i"] != 1:
        out.append(("root-node", f"root nodes: {roots}"))
        return out
    children = {}
    for n in nodes.values():
        if n["creator"] is not None and n["i"] != 1:
            children.setdefault(n["creator"], []).append(n["i"])
    reachable = {1}
    stack = [1]
    while stack:
        for c in children.get(stack.pop(), []):
            if c not in reachable:
                reachable.add(c)
                stack.append(c)
    for n in nodes.values():
        if bool(n["detached"]) == (n["i"] in reachable):
            kind = "detached-but-reachable" if n["detached"] else "attached-but-unreachable"
            out.append((kind, f"{view.label(n['i'])} detached={n['detached']} "
                              f"creator={view.label(n['creator']) if n['creator'] else None}"))
        if n["creator"] is not None and n["creator"] not in nodes:
            out.append(("dangling-creator", f"{view.label(n['i'])} creator {n['creator']}"))
    # creator kinds
    allowed = {"file": {"step", "st", "root"}, "step": {"step", "root"}, "st": {"step"}}
    for n in nodes.values():
        if n["kind"] == "root" or n["creator"] is None or n["creator"] not in nodes:
            continue
        ck = nodes[n["creator"]]["kind"]
        if n["kind"] in allowed and ck not in allowed[n["kind"]]:
            out.append(("creator-kind", f"{view.label(n['i'])} created by {view.label(n['creator'])}"))
    # every node has its row, every row its node
    for n in nodes.values():
        if n["kind"] == "file" and n["i"] not in files:
            out.append(("file-node-without-row", view.label(n["i"])))
        if n["kind"] == "step" and n["i"] not in steps:
            out.append(("step-node-without-row", view.label(n["i"])))
    for i in files:
        if i not in nodes or nodes[i]["kind"] != "file":
            out.append(("file-row-without-node", str(i)))
    for i in steps:
        if i not in nodes or nodes[i]["kind"] != "step":
            out.append(("step-row-without-node", str(i)))
    for table in ("step_hash", "nglob", "env_var", "step_resource"):
        for row in view.tables[table]:
            if row["node"] not in nodes or nodes[row["node"]]["kind"] != "step":
                out.append(("satellite-row-without-step", f"{table}: {row}"))
    dep_ids = {d["i"] for d in view.deps}
    for i in view.dynamic:
        if i not in dep_ids:
            out.append(("dynamic-flag-without-edge", str(i)))
    labels = {}
    for n in nodes.values():
        key = (n["kind"], n["label"])
        if key in labels:
            out.append(("duplicate-label", f"{key}"))
        labels[key] = n["i"]
    # (b) dependencies only link files with steps (a static tree may point to its files),
    #     and are acyclic
    ok_kinds = {("file", "step"), ("step", "file"), ("st", "file")}
    for d in view.deps:
        if d["source"] not in nodes or d["sink"] not in nodes:
            out.append(("dangling-dependency", f"{d}"))
            continue
        kinds = (nodes[d["source"]]["kind"], nodes[d["sink"]]["kind"])
        if kinds not in ok_kinds:
            out.append(("dependency-kinds", f"{view.label(d['source'])} -> {view.label(d['sink'])}"))
    cyc = _find_cycle(view)
    if cyc:
        out.append(("dependency-cycle", " -> ".join(view.label(i) for i in cyc)))
    # (c) a file that nothing declares is detached
    for i, f in files.items():
        n = nodes.get(i)
        if n is None:
            continue
        if f["state"] == UNDECLARED and not n["detached"]:
            out.append(("undeclared-file-attached", view.label(i)))
        if n["creator"] is None and not n["detached"]:
            out.append(("file-without-declaration-attached", view.label(i)))
    # (d) a succeeded step has all its outputs built
    for i, s in steps.items():
        n = nodes.get(i)
        if n is None or n["detached"] or s["state"] != SUCCEEDED:
            continue
        for sink, _ in view.sinks.get(i, []):
            fn, f = nodes.get(sink), files.get(sink)
            if fn is None or f is None or fn["detached"]:
                continue
            if f["state"] not in (BUILT, VOLATILE):
                out.append(("succeeded-step-with-unbuilt-output",
                            f"{view.label(i)} SUCCEEDED, output {fn['label']} "
                            f"{FILE_NAMES.get(f['state'])}"))
    # (e) states and stored hashes are mutually consistent
    for i, f in files.items():
        if f["state"] in HASH_REQUIRED and f["hash"] is None:
            out.append(("state-requires-hash", f"{view.label(i)} {FILE_NAMES[f['state']]}"))
        if f["state"] in HASH_FORBIDDEN and f["hash"] is not None:
            out.append(("state-forbids-hash", f"{view.label(i)} {FILE_NAMES[f['state']]}"))
        if f["state"] not in FILE_NAMES:
            out.append(("unknown-file-state", f"{view.label(i)} {f['state']}"))
    for i, s in steps.items():
        if s["state"] not in STEP_NAMES:
            out.append(("unknown-step-state", f"{view.label(i)} {s['state']}"))
        if s["deferred"] and s["state"] != PENDING:
            out.append(("deferred-but-not-pending", f"{view.label(i)} {STEP_NAMES.get(s['state'])}"))
        if s["_holding"] and s["state"] != RUNNING:
            out.append(("holding-but-not-running", f"{view.label(i)} {STEP_NAMES.get(s['state'])}"))
        if bool(s["_has_hash"]) != (i in view.has_hash):
            out.append(("has-hash-flag-disagrees",
                        f"{view.label(i)} _has_hash={s['_has_hash']} row={i in view.has_hash}"))
    return out


def _find_cycle(view):
    color = {}
    for start in list(view.sinks):
        if color.get(start):
            continue
        stack = [(start, iter(view.sinks.get(start, [])))]
        color[start] = 1
        path = [start]
        while stack:
            node, it = stack[-1]
            for nxt, _ in it:
                if view.nodes.get(node, {}).get("kind") == "st":
                    continue
                c = color.get(nxt)
                if c == 1:
                    return path[path.index(nxt):] + [nxt]
                if not c:
                    color[nxt] = 1
                    path.append(nxt)
                    stack.append((nxt, iter(view.sinks.get(nxt, []))))
                    break
            else:
                color[node] = 2
                path.pop()
                stack.pop()
    return None


# ---------------------------------------------------------------------------------------------
# C09: moves between two consecutive committed states

# (old, new) pairs a step that stays the same attached node may make in one transaction.
STEP_MOVES = {
    (PENDING, RUNNING), (PENDING, CHECKING),
    (CHECKING, SUCCEEDED), (CHECKING, PENDING),
    (CHECKING, FAILED),  # an input was found changed on disk while the step was being checked
    (RUNNING, SUCCEEDED), (RUNNING, FAILED), (RUNNING, PENDING),
    (SUCCEEDED, PENDING), (FAILED, PENDING),
}


def moves(prev, cur, boundary=False, in_flight=()):
    """Illegal moves of nodes present in both states. `boundary`: prev is the state a previous
    director left behind (restart), where interrupted steps are reset. `in_flight`: nodes with a
    job that was dispatched earlier and has not been retired yet: such a job completes the step
    whatever was declared about it in the meantime (Step.mark_completed documents this)."""
    out = []
    for i, s in cur.steps.items():
        p = prev.steps.get(i)
        if p is None or p["state"] == s["state"]:
            continue
        pn, cn = prev.nodes.get(i), cur.nodes.get(i)
        if pn is None or cn is None or pn["label"] != cn["label"]:
            continue
        if pn["detached"] or cn["detached"] or pn["creator"] != cn["creator"]:
            continue  # re-declared or orphaned: a new life
        pair = (p["state"], s["state"])
        if pair in STEP_MOVES:
            continue
        if boundary and pair in {(RUNNING, FAILED), (CHECKING, PENDING), (RUNNING, PENDING)}:
            continue
        if i in in_flight and pair[1] in (SUCCEEDED, FAILED, PENDING):
            out.append(("observation", f"completed-by-job-of-earlier-declaration:"
                                       f"{STEP_NAMES.get(pair[0])}>{STEP_NAMES.get(pair[1])}"))
            continue
        out.append((f"step-move/{STEP_NAMES.get(pair[0])}-to-{STEP_NAMES.get(pair[1])}",
                    f"{cur.label(i)}"))
    for i, f in cur.files.items():
        p = prev.files.get(i)
        if p is None:
            continue
        pn, cn = prev.nodes.get(i), cur.nodes.get(i)
        if pn is None or cn is None or pn["detached"] or cn["detached"]:
            continue
        if pn["creator"] != cn["creator"]:
            continue
        r0, r1 = role_of(p["state"]), role_of(f["state"])
        if r0 != r1:
            out.append((f"file-role-changed-in-place/{r0}-to-{r1}",
                        f"{cur.label(i)}: {FILE_NAMES.get(p['state'])} -> "
                        f"{FILE_NAMES.get(f['state'])} under the same creator "
                        f"{cur.label(cn['creator'])}"))
        if f["state"] == BUILT and p["state"] in (PLANNED, OUTDATED):
            producer = cn["creator"]
            ps = cur.steps.get(producer)
            if ps is not None and ps["state"] != SUCCEEDED:
                out.append(("output-built-without-succeeded-producer",
                            f"{cur.label(i)} became BUILT while {cur.label(producer)} is "
                            f"{STEP_NAMES.get(ps['state'])}"))
    return out


# ---------------------------------------------------------------------------------------------
# C10: the definitions behind the cached scheduling attributes


def definitions(view, targets=(), target_dirs=()):
    """Return {step node: dict(safe, safe_nh, implied_need, ready)} by definition."""
    nodes, steps, files = view.nodes, view.steps, view.files
    targets = set(targets)
    tdirs = [t if t.endswith("/") else t + "/" for t in target_dirs]
    safe_memo = {}

    def chain(i):
        """(safe, safe_nh) that node i passes on to its products."""
        if i not in steps:
            return (True, True)  # the root
        s, sn = safety(i)
        ok = steps[i]["state"] in (RUNNING, SUCCEEDED)
        return (s and ok and steps[i]["_holding"] == 0, sn and ok)

    def safety(i):
        if i in safe_memo:
            return safe_memo[i]
        safe_memo[i] = (False, False)  # guards against creator cycles (reported by C09)
        creator = nodes[i]["creator"]
        if creator is None or creator not in nodes:
            res = (False, False)  # orphan: never dispatched anyway
        else:
            res = chain(creator)
        safe_memo[i] = res
        return res

    need_memo = {}

    def regular_outputs(i):
        for sink, _ in view.sinks.get(i, []):
            fn, f = nodes.get(sink), files.get(sink)
            if fn is None or f is None or fn["detached"] or fn["kind"] != "file":
                continue
            if f["state"] != VOLATILE:
                yield fn["label"]

    def implied(i, depth=0):
        if i in need_memo:
            return need_memo[i]
        need_memo[i] = steps[i]["need"]
        best = steps[i]["need"]
        outs = list(regular_outputs(i))
        if any(o in targets for o in outs):
            best = max(best, TARGET)
        elif steps[i]["need"] == DEFAULT and any(o.startswith(t) for o in outs for t in tdirs):
            best = max(best, TARGET)
        for sink, _ in view.sinks.get(i, []):
            for consumer, _ in view.sinks.get(sink, []):
                cn = nodes.get(consumer)
                if cn is None or cn["detached"] or consumer not in steps:
                    continue
                best = max(best, implied(consumer, depth + 1))
        need_memo[i] = best
        return best

    def ready(i):
        for src, dep_i in view.sources.get(i, []):
            f, fn = files.get(src), nodes.get(src)
            if f is None or fn is None:
                continue
            st = f["state"]
            if st == VOLATILE:
                return False
            if dep_i in view.dynamic:
                if not fn["detached"] and st in (PLANNED, OUTDATED):
                    return False
            elif fn["detached"] or st not in (BUILT, CONFIRMED):
                return False
        return True

    result = {}
    for i in steps:
        if i not in nodes:
            continue
        s, sn = safety(i)
        result[i] = {"safe": s, "safe_nh": sn, "implied_need": implied(i), "ready": ready(i)}
    return result


def parse_resources(text):
    avail = {}
    if text:
        for item in text.split(","):
            name, _, units = item.partition(":")
            avail[name.strip()] = int(units or 1)
    return avail


def eligible(view, defs, avail, threshold=OPTIONAL):
    """{step node: 'check' | 'run'} for every step that may be dispatched now, by definition."""
    in_use = {}
    for i, s in view.steps.items():
        if s["state"] == RUNNING:
            for name, units in view.resources.get(i, {}).items():
                in_use[name] = in_use.get(name, 0) + units
    out = {}
    for i, s in view.steps.items():
        n = view.nodes.get(i)
        if n is None or n["detached"] or s["state"] != PENDING or s["deferred"]:
            continue
        d = defs[i]
        if d["implied_need"] <= max(threshold, OPTIONAL) or not d["ready"]:
            continue
        checkable = i in view.has_hash
        if checkable:
            if d["safe_nh"]:
                out[i] = "check"
            continue
        if not d["safe"]:
            continue
        free = all(name in avail and avail[name] - in_use.get(name, 0) >= units
                   for name, units in view.resources.get(i, {}).items())
        if free:
            out[i] = "run"
    return out
