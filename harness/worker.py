"""One worker process: runs a slice of every sub-check of one property and writes a JSON result."""

import argparse
import asyncio
import importlib
import inspect
import json
import os
import sys
import time
import traceback

from .common import HarnessError, Recorder, Scratch, Violation, from_jsonable, to_jsonable

MAX_ROUNDS = 4


class Ctx:
    def __init__(self, prop, tier, seed, worker, nworkers):
        self.prop = prop
        self.tier = tier
        self.seed = seed
        self.worker = worker
        self.nworkers = nworkers
        self.scratch = Scratch(f"{prop}-w{worker}")
        self.cache = {}
        self.known = set()
        self.deadline = float("inf")

    def close(self):
        for obj in self.cache.values():
            close = getattr(obj, "close", None)
            if close is not None:
                try:
                    close()
                except Exception:
                    pass
        self.scratch.close()


def load_module(prop: str):
    return importlib.import_module(f"props.{prop.lower()}")


def call_check(sub, case, rec, ctx):
    """Run the oracle on one case; coroutine functions get a fresh event loop."""
    if inspect.iscoroutinefunction(sub.check):
        return asyncio.run(sub.check(case, rec, ctx))
    return sub.check(case, rec, ctx)


def known_signatures(prop: str) -> dict[str, str]:
    from .common import VERIF_DIR

    path = os.path.join(VERIF_DIR, "known_findings.json")
    if not os.path.exists(path):
        return {}
    with open(path) as fh:
        data = json.load(fh)
    return {
        f["signature"]: f["what"]
        for f in data.get("findings", [])
        if f["property"] == prop and f.get("status", "known") == "known"
    }


LAST_CASE = {}


class CaseTimeout(BaseException):
    pass


class StopSubcheck(BaseException):
    pass


CASE_TIMEOUT_S = int(os.environ.get("VERIF_CASE_TIMEOUT_S", "300"))


class case_watchdog:
    """SIGALRM around one case: a director that spins for ever must not stall the whole check."""

    def __enter__(self):
        import signal

        def on_alarm(signum, frame):
            raise CaseTimeout()

        self.old = signal.signal(signal.SIGALRM, on_alarm)
        signal.alarm(CASE_TIMEOUT_S)

    def __exit__(self, *exc):
        import signal

        signal.alarm(0)
        signal.signal(signal.SIGALRM, self.old)
        return False


def run_subcheck(sub, ctx, known, tier, checkpoint=None):
    """Run one sub-check; returns (recorder dict, failures)."""
    from hypothesis import HealthCheck, Phase, given, seed, settings

    rec = Recorder()
    failures = []
    muted: set[str] = set()
    state = {"last": None}

    def guarded(case):
        if time.time() > ctx.deadline:
            # the time budget of this sub-check is used up: end the search gracefully with what
            # was explored (recorded in the evidence), never as a failure
            rec.extra["stopped_by_time_budget"] = 1
            raise StopSubcheck()
        state["last"] = case
        rec.evaluations += 1
        if checkpoint is not None:
            checkpoint(rec, failures)
        try:
            with case_watchdog():
                call_check(sub, case, rec, ctx)
        except CaseTimeout:
            # Inconclusive, never a violation: counted, reported by the runner (exit 2 unless a
            # violation was found elsewhere), and the search goes on.
            rec.extra["case_timeouts"] = rec.extra.get("case_timeouts", 0) + 1
            os.chdir(ctx.scratch.root)
        except Violation as v:
            if v.signature in known:
                rec.known_hits[v.signature] = rec.known_hits.get(v.signature, 0) + 1
                return
            if v.signature in muted:
                rec.muted_hits[v.signature] = rec.muted_hits.get(v.signature, 0) + 1
                if rec.muted_hits[v.signature] >= 40:
                    # the verdict for this sub-check is settled; do not spend the budget on
                    # re-finding the same violation
                    raise StopSubcheck() from None
                return
            state["violation"] = (v, case)
            raise

    # (sensitivity runs against mutants use a fraction of the examples and no shrinking)
    scale = float(os.environ.get("VERIF_EXAMPLES_SCALE", "1"))
    nexamples = max(ctx.nworkers, int(sub.examples * scale)) if sub.examples else 0
    share = nexamples // ctx.nworkers + (1 if ctx.worker < nexamples % ctx.nworkers else 0)
    if sub.cases is not None:
        # Deterministic enumeration, sharded over the workers.
        for case in sub.cases(ctx):
            try:
                guarded(case)
            except StopSubcheck:
                break
            except Violation as v:
                muted.add(v.signature)
                failures.append(_failure(sub, v, case))
                if len(failures) >= MAX_ROUNDS:
                    break
        return rec, failures
    if share == 0:
        return rec, failures

    strategy = sub.strategy() if callable(sub.strategy) else sub.strategy
    LAST_CASE["sub"] = sub.name
    LAST_CASE["state"] = state
    remaining = share
    for rnd in range(MAX_ROUNDS):
        if remaining <= 0:
            break
        phases = [Phase.generate, Phase.shrink] if sub.shrink and not os.environ.get(
            "VERIF_NO_SHRINK") else [Phase.generate]
        before = rec.evaluations

        @seed((ctx.seed * 1000003 + ctx.worker * 101 + rnd * 7 + sub.seed_salt) % (2**63))
        @settings(
            max_examples=remaining,
            database=None,
            deadline=None,
            report_multiple_bugs=False,
            suppress_health_check=list(HealthCheck),
            phases=phases,
            derandomize=False,
            print_blob=False,
        )
        @given(strategy)
        def test(case):
            guarded(case)

        try:
            test()
            break
        except StopSubcheck:
            break
        except Violation as v:
            case = state["last"]
            muted.add(v.signature)
            failures.append(_failure(sub, v, case))
            remaining -= rec.evaluations - before
        except Exception as exc:  # noqa: BLE001
            # Hypothesis reports a failure that does not repeat on its own re-run as "flaky"
            # (real threads and inotify are involved). The violation was observed all the same:
            # it is reported with the case that produced it; anything else is a harness error.
            from hypothesis.errors import Flaky

            if isinstance(exc, Flaky) and state.get("violation") is not None:
                v, case = state.pop("violation")
                muted.add(v.signature)
                rec.event("violation-not-repeated-on-rerun")
                failures.append(_failure(sub, v, case))
                remaining -= rec.evaluations - before
            else:
                raise
        # Any other exception is a harness error and propagates.
    return rec, failures


def run_regressions(prop, subs, ctx, known):
    """Replay tier: every saved case of a repaired defect (fixed-*.json) and of a recorded
    finding (known-*.json) is run outside Hypothesis before any generation."""
    import glob as _glob

    from .common import VERIF_DIR

    rec = Recorder()
    failures = []
    by_name = {sub.name: sub for sub in subs}
    for path in sorted(_glob.glob(os.path.join(VERIF_DIR, "replays", prop, "fixed-*.json"))
                       + _glob.glob(os.path.join(VERIF_DIR, "replays", prop, "known-*.json"))):
        with open(path) as fh:
            data = json.load(fh)
        sub = by_name.get(data.get("subcheck"))
        if sub is None:
            raise HarnessError(f"{path}: no sub-check {data.get('subcheck')}")
        case = from_jsonable(data["case"])
        rec.evaluations += 1
        name = os.path.basename(path)
        try:
            call_check(sub, case, rec, ctx)
            rec.event(("holds:" if name.startswith("fixed-") else "not-reproduced:") + name)
        except Violation as v:
            if v.signature in known:
                rec.known_hits[v.signature] = rec.known_hits.get(v.signature, 0) + 1
                rec.event("reproduced:" + name)
            else:
                failures.append(_failure(sub, v, case))
    d = rec.to_dict()
    d["wall_s"] = 0.0
    return d, failures


def _failure(sub, v: Violation, case):
    return {
        "subcheck": sub.name,
        "signature": v.signature,
        "message": v.message,
        "details": to_jsonable(v.details) if v.details is not None else None,
        "case": to_jsonable(case),
    }


def main(argv=None):
    parser = argparse.ArgumentParser()
    parser.add_argument("--prop", required=True)
    parser.add_argument("--tier", required=True)
    parser.add_argument("--seed", type=int, required=True)
    parser.add_argument("--worker", type=int, required=True)
    parser.add_argument("--nworkers", type=int, required=True)
    parser.add_argument("--out", required=True)
    parser.add_argument("--only", default=None, help="run only this sub-check")
    parser.add_argument("--budget", type=float, default=0.0,
                        help="seconds for all sub-checks together (0: unlimited)")
    args = parser.parse_args(argv)

    t0 = time.time()
    result = {"worker": args.worker, "subchecks": {}, "failures": [], "error": None}
    ctx = Ctx(args.prop, args.tier, args.seed, args.worker, args.nworkers)
    last_partial = [0.0, 0]
    try:
        mod = load_module(args.prop)
        known = known_signatures(args.prop)
        ctx.known = set(known)
        if args.worker == 0 and not args.only:
            d, failures = run_regressions(args.prop, mod.subchecks(args.tier), ctx, known)
            result["subchecks"]["saved_cases"] = d
            result["failures"].extend(failures)
        for i, sub in enumerate(mod.subchecks(args.tier)):
            if args.only and sub.name != args.only:
                continue
            if sub.seed_salt == 0:
                sub.seed_salt = (i + 1) * 7919
            t1 = time.time()
            if args.budget > 0:
                subs_left = len(mod.subchecks(args.tier)) - i
                remaining = max(5.0, t0 + args.budget - t1)
                ctx.deadline = t1 + remaining / subs_left
            done_failures = list(result["failures"])

            def checkpoint(rec, failures, name=sub.name, t1=t1, done_failures=done_failures):
                # heartbeat for the runner's stall detection, and a partial result every few
                # seconds so that a worker killed in a non-terminating case loses nothing
                now = time.time()
                with open(args.out + ".hb", "w"):
                    pass
                if now - last_partial[0] < 5.0 and len(failures) == last_partial[1]:
                    return
                last_partial[0] = now
                last_partial[1] = len(failures)
                d = rec.to_dict()
                d["wall_s"] = now - t1
                result["subchecks"][name] = d
                result["failures"] = done_failures + list(failures)
                tmp = args.out + ".partial.tmp"
                with open(tmp, "w") as fh:
                    json.dump(result, fh)
                os.replace(tmp, args.out + ".partial")

            rec, failures = run_subcheck(sub, ctx, known, args.tier, checkpoint)
            d = rec.to_dict()
            d["wall_s"] = time.time() - t1
            result["subchecks"][sub.name] = d
            result["failures"] = done_failures + list(failures)
    except HarnessError as exc:
        result["error"] = f"HarnessError: {exc}\n{traceback.format_exc()}"
    except BaseException as exc:  # noqa: BLE001 - reported as harness error, never as a pass
        result["error"] = f"{type(exc).__name__}: {exc}\n{traceback.format_exc()}"
    finally:
        ctx.close()
    if result["error"] is not None and LAST_CASE.get("state", {}).get("last") is not None:
        # keep the case for triage (never reported as a violation)
        try:
            result["error_case"] = {"subcheck": LAST_CASE["sub"],
                                    "case": to_jsonable(LAST_CASE["state"]["last"])}
        except Exception:  # noqa: BLE001
            pass
    result["wall_s"] = time.time() - t0
    with open(args.out, "w") as fh:
        json.dump(result, fh)
    # Threads of the code under test (hash workers) must not keep the worker alive.
    sys.stdout.flush()
    sys.stderr.flush()
    os._exit(0 if result["error"] is None else 2)


def replay_case(prop: str, subcheck: str, case_json, tier="quick"):
    """Run one saved case outside Hypothesis; returns None or the Violation."""
    mod = load_module(prop)
    ctx = Ctx(prop, tier, 0, 0, 1)
    try:
        for sub in mod.subchecks(tier):
            if sub.name == subcheck:
                rec = Recorder()
                try:
                    call_check(sub, from_jsonable(case_json), rec, ctx)
                except Violation as v:
                    return v
                return None
        raise HarnessError(f"no sub-check {subcheck} in {prop}")
    finally:
        ctx.close()


if __name__ == "__main__":
    main()
