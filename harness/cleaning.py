"""Shared generator and oracles for the two cleaning properties (C06, C07)."""

import argparse
import contextlib
import io
import os

from hypothesis import strategies as st

from . import history as H
from . import specgen
from .common import Violation
from .sim import fs_snapshot, sha


@st.composite
def clean_histories(draw, with_tool=True, focus=None):
    """Histories with user actions on former/current outputs and optional `stepup clean` calls.

    Biased so that the interesting situation is frequent: an output loses its declaration (its
    step is dropped, renamed or re-roled) in the very stage in which the user touched it.
    """
    hist = draw(specgen.histories(max_steps=5, min_builds=2, max_builds=4, focus=focus))
    stages = hist["stages"]
    for i in range(1, len(stages)):
        prev = stages[i - 1]["spec"]
        spec = stages[i]["spec"]
        prev_outs = specgen.declared_outputs(prev)
        # extra orphan-producing edit
        names = [n for n in specgen.active_steps(spec) if spec["steps"][n]["out"]]
        if names and draw(st.integers(0, 1)) == 0:
            n = draw(st.sampled_from(names))
            kind = draw(st.sampled_from(["drop", "rename", "vol"]))
            sd = spec["steps"][n]
            if kind == "drop":
                for plan in spec["plans"].values():
                    if ["step", n] in plan["items"]:
                        plan["items"].remove(["step", n])
            elif kind == "rename":
                old = sd["out"][0]
                sd["out"][0] = old.replace(".out", "x.out")
                for other in spec["steps"].values():
                    other["inp"] = [sd["out"][0] if q == old else q for q in other["inp"]]
                    other["amend_inp"] = [sd["out"][0] if q == old else q
                                          for q in other["amend_inp"]]
            else:
                used = {q for o in spec["steps"].values() for q in o["inp"] + o["amend_inp"]}
                free = [p for p in sd["out"] if p not in used]
                if free:
                    sd["out"].remove(free[0])
                    sd["vol"].append(free[0])
            stages[i]["edit"].append([f"extra_{kind}", n])
        now_outs = specgen.declared_outputs(spec)
        losing = sorted(p for p in prev_outs if p not in now_outs)
        keeping = sorted(p for p in prev_outs if p in now_outs)
        actions = []
        pool = losing * 3 + keeping
        if pool and draw(st.integers(0, 2)) != 0:
            for _ in range(draw(st.integers(1, 2))):
                p = draw(st.sampled_from(pool))
                kind = draw(st.sampled_from(["overwrite", "overwrite", "overwrite", "delete",
                                             "mkdir_over", "touch"]))
                if kind == "overwrite":
                    actions.append(["overwrite", p, f"user edit {draw(st.integers(0, 9))}\n"])
                else:
                    actions.append([kind, p])
        if prev_outs and draw(st.integers(0, 5)) == 0:
            # adopt a former output as a user file: drop its producer, keep the path as a source
            p = draw(st.sampled_from(sorted(prev_outs)))
            name, _role = prev_outs[p]
            if name in specgen.active_steps(spec):
                for plan in spec["plans"].values():
                    if ["step", name] in plan["items"]:
                        plan["items"].remove(["step", name])
                spec["sources"][p] = f"adopted {p}\n"
                others = [n for n in specgen.active_steps(spec) if n != name]
                if others and draw(st.booleans()):
                    # declared static only when some step uses it
                    spec["steps"][draw(st.sampled_from(others))]["inp"].append(p)
                stages[i]["edit"].append(["adopt_output", p, name])
        stages[i]["build"]["user_actions"] = actions
        if draw(st.integers(0, 4)) == 0:
            stages[i]["build"]["do_clean"] = False
        if with_tool and draw(st.integers(0, 3)) == 0:
            # a build restricted to targets must not clean anything
            outs_now = sorted(p for p, (_n, role) in now_outs.items() if role == "out")
            mode = draw(st.sampled_from(["dirs", "dirs", "files", "mixed"]))
            targets = []
            if mode in ("dirs", "mixed"):
                targets += draw(st.lists(st.sampled_from(specgen.OUT_DIRS + ["sub/"]), min_size=1,
                                         max_size=2))
            if mode in ("files", "mixed") and outs_now:
                targets.append(draw(st.sampled_from(outs_now)))
            stages[i]["build"]["targets"] = sorted(set(targets))
    for i, stage in enumerate(stages):
        if with_tool and draw(st.integers(0, 2)) == 0:
            outs = sorted(specgen.declared_outputs(stage["spec"]))
            if i > 0:
                outs += sorted(specgen.declared_outputs(stages[i - 1]["spec"]))
            tool_actions = []
            if outs and draw(st.booleans()):
                p = draw(st.sampled_from(outs))
                tool_actions.append(["overwrite", p, f"user edit {draw(st.integers(0, 9))}\n"])
            paths = draw(st.lists(st.sampled_from([".", ".", "out", "out/", "sub", "gen", "out2",
                                                   "Out", "data", "sub/out"]),
                                  min_size=1, max_size=2))
            stage["clean_tool"] = {"paths": paths, "commit": draw(st.integers(0, 3)) != 0,
                                   "all": draw(st.booleans()), "unsafe": draw(st.integers(0, 3)) == 0,
                                   "user_actions": tool_actions}
    # A producer renames its output while a newly defined consumer still names the old path: the
    # build is incomplete (no cleanup), the orphaned output node is re-created for the new
    # consumer; in the next stage the consumer is corrected and the build succeeds, so the old
    # file has to go.
    last = stages[-1]["spec"]
    producers = [n for n in specgen.active_steps(last)
                 if last["steps"][n]["out"] and not last["steps"][n].get("fail")
                 and last["steps"][n].get("need", "default") == "default"]
    if producers and draw(st.integers(0, 3)) == 0:
        import copy as _copy

        n = draw(st.sampled_from(producers))
        spec_a = _copy.deepcopy(last)
        old = spec_a["steps"][n]["out"][0]
        new = old.replace(".out", "r.out")
        spec_a["steps"][n]["out"][0] = new
        spec_a["steps"]["stale"] = {
            "script": "stale.py", "args": [], "workdir": ".", "inp": [old],
            "out": ["gen/stale.out"], "vol": [], "env": [], "need": "default", "resources": {},
            "amend_inp": [], "amend_out": [], "read_first": False, "fail": None,
            "partial": False, "variant": 0}
        spec_a["plans"]["plan.py"]["items"].append(["step", "stale"])
        spec_b = _copy.deepcopy(spec_a)
        for other in spec_b["steps"].values():
            other["inp"] = [new if q == old else q for q in other["inp"]]
            other["amend_inp"] = [new if q == old else q for q in other["amend_inp"]]
        build = dict(stages[-1]["build"], do_clean=True, user_actions=[])
        build.pop("targets", None)
        stages.append({"edit": [["stale_consumer_of_renamed_output", n, old]], "spec": spec_a,
                       "build": dict(build)})
        stages.append({"edit": [["consumer_corrected", n, new]], "spec": spec_b,
                       "build": dict(build)})
    return {"stages": stages}


def run_clean_tool(options):
    """Run `stepup clean` in-process on the cwd's database through a read-only connection."""
    from path import Path

    from stepup.core.clean import clean
    from stepup.core.constants import GRAPH_DB
    from stepup.core.sqlite3 import connect

    os.environ["STEPUP_ROOT"] = os.getcwd()
    con = connect(GRAPH_DB, read_only=True)
    try:
        args = argparse.Namespace(commit=options["commit"], all=options["all"],
                                  safe=not options["unsafe"])
        tr_paths = {Path(os.path.normpath(p)) for p in options["paths"]}
        from stepup.core.exceptions import HashError

        try:
            with contextlib.redirect_stdout(io.StringIO()):
                clean(con, tr_paths, args)
        except (HashError, OSError):
            # Observation outside C06 (nothing is deleted wrongly): `stepup clean` dies with a
            # traceback when a former output was replaced by a directory
            # (HashFailedError for a regular output, IsADirectoryError for a volatile one).
            return "crashed-on-directory-at-output-path"
    finally:
        con.close()
        os.environ.pop("STEPUP_ROOT", None)


class DirLedger:
    """Directories that StepUp (not the user) created, observed from before/after snapshots."""

    def __init__(self):
        self.by_stepup = set()

    def absorb(self, before, after, user_files):
        user_dirs = set()
        for p in user_files:
            d = os.path.dirname(p)
            while d:
                user_dirs.add(d + "/")
                d = os.path.dirname(d)
        for p, entry in after.items():
            if entry["type"] == "dir" and p not in before and p not in user_dirs:
                self.by_stepup.add(p)
        self.by_stepup -= user_dirs


def deleted_paths(before, after):
    files = [p for p, e in before.items() if e["type"] == "file" and p not in after]
    dirs = [p for p, e in before.items() if e["type"] == "dir" and p not in after]
    return files, dirs


def static_paths(tables):
    """Labels of attached file nodes in the STATIC role."""
    from stepup.core.enums import FILE_STATES_BY_ROLE, FileRole

    nodes = {n["i"]: n for n in tables["node"]}
    values = {s.value for s in FILE_STATES_BY_ROLE[FileRole.STATIC]}
    return {nodes[f["node"]]["label"] for f in tables["file"]
            if f["state"] in values and not nodes[f["node"]]["detached"]}


def check_deletions(prop, where, before, after, ledger, *, unsafe=False, user_removed=(),
                    static=(), written_now=None):
    """C06 oracle for one invocation (a build or a `stepup clean` call).

    `static`: paths declared static in the workflow at the time of the invocation. A file the
    user merely put at a former output path is protected by the content rule, not by this one.
    """
    files, dirs = deleted_paths(before, after)
    files = [p for p in files if p not in user_removed]
    for p in files:
        entry = before[p]
        # A file that a step of this very build rewrote before StepUp deleted it had, at the
        # moment of deletion, the content of that last write, not the content of the snapshot
        # taken before the build (steps are the only writers while a build runs).
        if written_now and p in written_now:
            entry = dict(entry, sha=written_now[p])
        if p in ledger.user_files and (p in static or p not in ledger.ever_declared):
            raise Violation(f"{prop}/deleted-user-provided-file",
                            f"{where}: {p} is provided by the user (static) and was deleted")
        roles = ledger.ever_declared.get(p)
        if not roles:
            raise Violation(f"{prop}/deleted-path-never-declared-as-output",
                            f"{where}: {p} was deleted but no step ever declared it")
        if "vol" not in roles and not unsafe:
            # "modified after StepUp last recorded it": the reference is the digest StepUp last
            # stored for the path (observed at every commit), which after a failed or deferred
            # run can be content that no step wrote.
            if ledger.recorded.get(p) != entry["sha"]:
                raise Violation(
                    f"{prop}/deleted-modified-output",
                    f"{where}: regular output {p} was deleted although its content "
                    f"({entry['sha'][:10]}) differs from what StepUp last recorded "
                    f"({str(ledger.recorded.get(p))[:10]}; last written by a step: "
                    f"{str(ledger.last_written.get(p))[:10]})",
                )
            if ledger.last_written.get(p) != entry["sha"]:
                # Observation outside the statement (see DESIGN.md): StepUp recorded, and now
                # deletes, content that the user put at the output path.
                ledger.observations.append(("deleted-user-content-recorded-after-failed-run", p))
    gone = set(files) | set(dirs) | set(user_removed)
    for d in dirs:
        inside = [p for p in before if p.startswith(d) and p != d]
        left = [p for p in inside if p not in gone]
        if left:
            raise Violation(f"{prop}/removed-non-empty-directory",
                            f"{where}: directory {d} removed while it contained {left[:5]}")
    return files, dirs


def stepup_should_have_cleaned(tables, ledger, dir_ledger, snapshot, before=None):
    """C07 oracle: orphaned, unmodified former outputs that are still on disk or in the graph."""
    from stepup.core.enums import FileState, StepState

    nodes = {n["i"]: n for n in tables["node"]}
    steps = {s["node"]: s for s in tables["step"]}
    files = {f["node"]: f for f in tables["file"]}
    by_label = {(n["kind"], n["label"]): n for n in tables["node"]}
    declared_by_attached = {}
    for dep in tables["dependency"]:
        src, snk = dep["source"], dep["sink"]
        if src in steps and snk in files and not nodes[src]["detached"] \
                and not nodes[snk]["detached"]:
            declared_by_attached[nodes[snk]["label"]] = src
    used_as_input = set()
    for dep in tables["dependency"]:
        src, snk = dep["source"], dep["sink"]
        if src in files and snk in steps and not nodes[snk]["detached"]:
            used_as_input.add(nodes[src]["label"])
    # Detached nodes that are kept because an attached step (indirectly) holds them:
    # X is held when it has a sink that is attached or held, or a product that is held.
    held = set()
    changed = True
    while changed:
        changed = False
        for dep in tables["dependency"]:
            src, snk = dep["source"], dep["sink"]
            if nodes[src]["detached"] and src not in held and (
                    not nodes[snk]["detached"] or snk in held):
                held.add(src)
                changed = True
        for n in tables["node"]:
            c = n["creator"]
            if c is not None and nodes[c]["detached"] and c not in held and n["i"] in held:
                held.add(c)
                changed = True
    need_by_definition = H.needed_steps(tables)
    problems = []
    for path, written in ledger.last_written.items():
        if path in ledger.user_files:
            continue
        entry = snapshot.get(path)
        on_disk = entry is not None and entry["type"] == "file"
        if on_disk and entry["sha"] != written:
            continue  # modified after StepUp wrote it: must be kept (C06)
        if entry is not None and entry["type"] == "dir":
            continue
        if path in used_as_input:
            continue
        producer = declared_by_attached.get(path)
        node = by_label.get(("file", path))
        orphan = producer is None
        if producer is None:
            # no longer defined: gone from disk and from the graph, unless an attached step
            # holds the node, directly (the statement's exception) or through a chain of
            # detached nodes (the documented fixed point of Trellis.delete_detached).
            if node is not None and node["i"] in held:
                pass
            elif on_disk:
                problems.append(("orphan-output-left-on-disk", path))
            elif node is not None:
                problems.append(("orphan-output-node-left-in-graph", path))
        else:
            pstate = steps[producer]
            # "an optional step that is not needed", by the definition of need, not by the
            # cached _implied_need column (which is what a defect would leave stale)
            unneeded_optional = pstate["need"] == 31 and \
                need_by_definition[nodes[producer]["label"]] <= 31
            if unneeded_optional and on_disk and node is not None:
                roles = ledger.ever_declared.get(path, set())
                kind = "output-of-unneeded-optional-step-left-on-disk"
                if {"out", "vol"} <= roles and files[node["i"]]["state"] == \
                        FileState.PLANNED.value:
                    # Root-cause refinement: the path was a volatile output when it was written
                    # and is a regular (PLANNED, hash-less) output now.
                    kind += "-after-volatile-to-regular-re-role"
                problems.append((kind, path))
            orphan = unneeded_optional
        removed_now = before is not None and path in before and not on_disk
        if orphan and removed_now:
            d = os.path.dirname(path)
            while d:
                dd = d + "/"
                if dd in dir_ledger.by_stepup and dd in snapshot and not any(
                        p.startswith(dd) and p != dd for p in snapshot):
                    problems.append(("empty-directory-created-by-stepup-left", dd))
                d = os.path.dirname(d)
    return sorted(set(problems))


async def run_clean_history(case, ctx, on_invocation):
    """Run the history; call on_invocation(kind, where, before, after, rec, ledger, dirs, extra)."""
    d = ctx.scratch.fresh("proj")
    os.chdir(d)
    ledger = H.Ledger()
    dir_ledger = DirLedger()
    user_files = set()
    records = []
    for i, stage in enumerate(case["stages"]):
        build = stage["build"]
        # user actions are applied inside run_stage, before the 'before' snapshot; remember what
        # the user removed or replaced so that it is not attributed to StepUp
        pre = fs_snapshot(".")
        rec, user_files = await H.run_stage(stage["spec"], build, ledger, user_files)
        records.append(rec)
        if rec.result.serve_error is not None or rec.result.timed_out:
            return records, ledger, dir_ledger, d
        dir_ledger.absorb(pre, rec.after, user_files)
        on_invocation("build", f"stage {i}", rec.before, rec.after, rec, ledger, dir_ledger, None)
        if "clean_tool" in stage:
            for action in stage["clean_tool"].get("user_actions", []):
                H.apply_user_action(action, ledger)
            before = fs_snapshot(".")
            outcome = run_clean_tool(stage["clean_tool"])
            stage["clean_tool"]["outcome"] = outcome
            after = fs_snapshot(".")
            on_invocation("tool", f"stepup clean after stage {i}", before, after, rec, ledger,
                          dir_ledger, stage["clean_tool"])
    return records, ledger, dir_ledger, d


def content_sha(text):
    return sha(text.encode())
