"""Shared definitions for all property checks: violations, recorders, JSON encoding of cases."""

import hashlib
import json
import os
import shutil
import tempfile

VERIF_DIR = os.path.dirname(os.path.dirname(os.path.abspath(__file__)))


class Violation(Exception):
    """The property under test does not hold on the current case.

    `signature` names the root cause as precisely as the oracle can
    (it is what known_findings.json lists and what buckets failures);
    `message` is for humans.
    """

    def __init__(self, signature: str, message: str = "", details=None):
        super().__init__(f"{signature}: {message}")
        self.signature = signature
        self.message = message
        self.details = details


class HarnessError(Exception):
    """Something is wrong with the harness or a substitution point, not with the property."""


class Recorder:
    """Collects classification events, non-trivial fingerprints and sample cases of one worker."""

    MAX_SAMPLES = 4

    def __init__(self):
        self.evaluations = 0
        self.events: dict[str, int] = {}
        self.nontrivial: set[str] = set()
        self.samples: list = []
        self.known_hits: dict[str, int] = {}
        self.muted_hits: dict[str, int] = {}
        self.extra: dict[str, int] = {}

    def event(self, name: str, n: int = 1):
        self.events[name] = self.events.get(name, 0) + n

    def count(self, name: str, n: int = 1):
        self.extra[name] = self.extra.get(name, 0) + n

    def mark_nontrivial(self, fingerprint_obj, sample=None):
        fp = fingerprint(fingerprint_obj)
        new = fp not in self.nontrivial
        self.nontrivial.add(fp)
        if new and sample is not None and len(self.samples) < self.MAX_SAMPLES:
            self.samples.append(to_jsonable(sample))
        return new

    def to_dict(self):
        return {
            "evaluations": self.evaluations,
            "events": self.events,
            "nontrivial": sorted(self.nontrivial),
            "samples": self.samples,
            "known_hits": self.known_hits,
            "muted_hits": self.muted_hits,
            "extra": self.extra,
        }


def fingerprint(obj) -> str:
    data = json.dumps(to_jsonable(obj), sort_keys=True, ensure_ascii=True)
    return hashlib.sha256(data.encode()).hexdigest()[:16]


def to_jsonable(obj):
    """Encode a generated case so that `from_jsonable` restores an equal value."""
    if isinstance(obj, bytes):
        return {"__b__": obj.hex()}
    if isinstance(obj, dict):
        if all(isinstance(k, str) for k in obj):
            return {k: to_jsonable(v) for k, v in obj.items()}
        return {"__d__": [[to_jsonable(k), to_jsonable(v)] for k, v in obj.items()]}
    if isinstance(obj, (list, tuple)):
        return [to_jsonable(v) for v in obj]
    if isinstance(obj, (set, frozenset)):
        return {"__s__": sorted((to_jsonable(v) for v in obj), key=json.dumps)}
    if isinstance(obj, str):
        try:
            obj.encode("utf-8")
        except UnicodeEncodeError:
            return {"__u__": obj.encode("utf-8", "surrogatepass").hex()}
        return obj
    if obj is None or isinstance(obj, (bool, int, float)):
        return obj
    raise TypeError(f"case value not JSON encodable: {type(obj)}")


def from_jsonable(obj):
    if isinstance(obj, dict):
        if set(obj) == {"__b__"}:
            return bytes.fromhex(obj["__b__"])
        if set(obj) == {"__u__"}:
            return bytes.fromhex(obj["__u__"]).decode("utf-8", "surrogatepass")
        if set(obj) == {"__d__"}:
            return {_hashable(from_jsonable(k)): from_jsonable(v) for k, v in obj["__d__"]}
        if set(obj) == {"__s__"}:
            return {_hashable(from_jsonable(v)) for v in obj["__s__"]}
        return {k: from_jsonable(v) for k, v in obj.items()}
    if isinstance(obj, list):
        return [from_jsonable(v) for v in obj]
    return obj


def _hashable(v):
    if isinstance(v, list):
        return tuple(_hashable(x) for x in v)
    return v


def scratch_base() -> str:
    base = os.environ.get("VERIF_SCRATCH")
    if base:
        os.makedirs(base, exist_ok=True)
        return base
    for cand in ("/dev/shm", tempfile.gettempdir()):
        if os.path.isdir(cand) and os.access(cand, os.W_OK):
            return cand
    return tempfile.gettempdir()


class Scratch:
    """A scratch directory removed on exit; `fresh()` hands out empty sub-directories."""

    def __init__(self, tag: str):
        self.root = tempfile.mkdtemp(prefix=f"verif-{tag}-", dir=scratch_base())
        self._n = 0

    def fresh(self, name: str = "d") -> str:
        self._n += 1
        path = os.path.join(self.root, f"{name}{self._n}")
        os.makedirs(path)
        return path

    def release(self, path: str):
        shutil.rmtree(path, ignore_errors=True)

    def close(self):
        shutil.rmtree(self.root, ignore_errors=True)


class SubCheck:
    """One generated check of a property.

    `strategy`: a Hypothesis strategy (or a zero-argument callable returning one) producing
    JSON-encodable cases, or `cases(ctx)`: a deterministic iterator (enumeration, sharded by the
    callee using ctx.worker / ctx.nworkers).
    `check(case, rec, ctx)`: the oracle; raises `Violation` when the property fails.
    `examples`: total number of generated cases over all workers.
    """

    def __init__(self, name, check, strategy=None, cases=None, examples=0, shrink=True,
                 description=""):
        self.name = name
        self.check = check
        self.strategy = strategy
        self.cases = cases
        self.examples = examples
        self.shrink = shrink
        self.description = description
        self.seed_salt = 0
