"""Run a generated history (spec, edits, builds) with the E1 engine and keep what oracles need."""

import os
import shutil

from . import specgen
from .sim import Session, canonical_graph, fs_snapshot, run_build, sha


class Ledger:
    """The harness's own provenance record, independent of StepUp's database."""

    def __init__(self):
        self.user_files = set()  # paths the user (harness) currently provides
        self.user_sha = {}  # path -> sha of what the user last wrote there
        self.ever_declared = {}  # path -> set of roles ever declared by any step ("out"/"vol")
        self.last_written = {}  # path -> sha last written by a StepUp-run step
        self.writers = {}  # path -> label of last writer
        self.recorded = {}  # path -> hex digest StepUp last recorded for the file (or None)
        self.observations = []
        self._raw = {}  # path -> raw JSON text last seen, to avoid decoding at every commit

    def note_user(self, files, root="."):
        self.user_files = set(files)
        for p in files:
            full = os.path.join(root, p)
            if os.path.isfile(full):
                with open(full, "rb") as fh:
                    self.user_sha[p] = sha(fh.read())

    def note_user_write(self, path, content: bytes):
        self.user_sha[path] = sha(content)

    def commit_hook(self, con, ncommit):
        """Called inside every committing transaction: what StepUp records for each file."""
        from stepup.core.hash import FileHash

        for label, raw in con.execute(
                "SELECT node.label, file.hash FROM node JOIN file ON file.node = node.i"):
            # The last digest StepUp stored; a later reset to "no hash" (PLANNED, reverted,
            # noticed as modified) does not erase what it last knew about the content.
            if raw is not None and self._raw.get(label) != raw:
                self._raw[label] = raw
                self.recorded[label] = FileHash.from_json(raw).digest.hex()

    def absorb(self, steplog):
        for e in steplog:
            if e["op"] == "define":
                spec = e["spec"]
                for p in spec.get("out", []):
                    self.ever_declared.setdefault(p, set()).add("out")
                for p in spec.get("vol", []):
                    self.ever_declared.setdefault(p, set()).add("vol")
            elif e["op"] == "amend":
                for p in e["spec"].get("out", []):
                    self.ever_declared.setdefault(p, set()).add("out")
                for p in e["spec"].get("vol", []):
                    self.ever_declared.setdefault(p, set()).add("vol")
            elif e["op"] in ("write", "write_partial"):
                self.last_written[e["path"]] = e["sha"]
                self.writers[e["path"]] = e["label"]


class StageRecord:
    def __init__(self):
        self.spec = None
        self.before = None
        self.after = None
        self.result = None
        self.config = None


def serve_config(build):
    cfg = {"njob": build.get("njob", 1), "keep_going": build.get("keep_going", False),
           "do_clean": build.get("do_clean", True),
           "available_resources": build.get("resources")}
    if build.get("targets"):
        cfg["targets"] = [t for t in build["targets"] if not t.endswith("/")]
        cfg["target_dirs"] = [t for t in build["targets"] if t.endswith("/")]
    if build.get("defer_cap") is not None:
        cfg["defer_cap"] = build["defer_cap"]
    return cfg


def build_env(spec):
    env = {n: None for n in specgen.ENV_NAMES}
    env.update(spec.get("env", {}))
    return env


async def run_stage(spec, build, ledger, user_files, **kwargs):
    kwargs = dict(kwargs)
    rec = StageRecord()
    rec.spec = spec
    rec.config = build
    files = specgen.materialize(spec, user_files)
    ledger.note_user(files)
    for action in build.get("user_actions", []):
        apply_user_action(action, ledger)
    rec.before = fs_snapshot(".")
    inner_setup = kwargs.pop("observer_setup", None)

    def observer_setup(obs):
        obs.before_hooks.append(ledger.commit_hook)
        if inner_setup is not None:
            inner_setup(obs)

    rec.result = await run_build(serve_config(build), choices=build.get("choices", ()),
                                 env=build_env(spec), observer_setup=observer_setup, **kwargs)
    rec.after = fs_snapshot(".")
    ledger.absorb(rec.result.steplog)
    return rec, files


def apply_user_action(action, ledger):
    """User actions on files that are not sources: ['overwrite', path, text], ['delete', path],
    ['mkdir_over', path], ['touch', path]."""
    kind, path = action[0], action[1]
    if kind == "overwrite":
        if os.path.isdir(path):
            return
        parent = os.path.dirname(path)
        if parent:
            os.makedirs(parent, exist_ok=True)
        with open(path, "w") as fh:
            fh.write(action[2])
        ledger.note_user_write(path, action[2].encode())
    elif kind == "delete":
        if os.path.isfile(path):
            os.remove(path)
    elif kind == "mkdir_over":
        if os.path.isfile(path):
            os.remove(path)
        os.makedirs(path, exist_ok=True)
        with open(os.path.join(path, "keep.txt"), "w") as fh:
            fh.write("user\n")
        ledger.note_user_write(os.path.join(path, "keep.txt"), b"user\n")
    elif kind == "touch":
        if os.path.isfile(path):
            os.utime(path, None)


async def run_history(case, ctx, after_stage=None, **kwargs):
    """Run all stages in a fresh scratch directory; returns (records, ledger, directory)."""
    d = ctx.scratch.fresh("proj")
    os.chdir(d)
    ledger = Ledger()
    user_files = set()
    records = []
    for stage in case["stages"]:
        rec, user_files = await run_stage(stage["spec"], stage["build"], ledger, user_files,
                                          **kwargs)
        records.append(rec)
        if rec.result.serve_error is not None or rec.result.timed_out:
            break
        if after_stage is not None:
            after_stage(len(records) - 1, rec, ledger)
    return records, ledger, d


async def scratch_build(spec, ctx, build=None):
    """Build the final spec from scratch in a fresh directory with a fixed sequential schedule."""
    d = ctx.scratch.fresh("scratch")
    os.chdir(d)
    ledger = Ledger()
    build = dict(build or {})
    build.setdefault("njob", 1)
    build.setdefault("choices", ())
    rec, _ = await run_stage(spec, build, ledger, set())
    return rec, d


# ---------------------------------------------------------------------------------------------
# Oracles shared by several properties


def expected_content(spec, name, path, read_sha, sd=None):
    """What step `name` must have written to `path`, given the sha of everything it reads."""
    sd = sd if sd is not None else spec["steps"][name]
    label, _ = specgen.step_label(sd)
    reads = [(p, read_sha(p)) for p in sd["inp"] + sd.get("amend_inp", [])]
    env = specgen.ENV_NAMES and spec.get("env", {})
    envs = [(n, env.get(n)) for n in sd.get("env", []) + sd.get("amend_env", [])]
    for n, v in sorted((sd.get("env_overrides") or {}).items()):
        envs.append((n, v))
    if sd.get("variant"):
        envs.append(("VERIF_VARIANT_" + str(sd["variant"]), None))
    return Session.output_content(label, reads, envs, path)


def disk_sha(path):
    try:
        with open(path, "rb") as fh:
            return sha(fh.read())
    except OSError:
        return None


def step_states(tables):
    """label -> (state value, detached) for every step row."""
    nodes = {n["i"]: n for n in tables["node"]}
    return {nodes[s["node"]]["label"]: (s["state"], bool(nodes[s["node"]]["detached"]))
            for s in tables["step"]}


def file_states(tables):
    nodes = {n["i"]: n for n in tables["node"]}
    return {nodes[f["node"]]["label"]: (f["state"], bool(nodes[f["node"]]["detached"]),
                                        nodes[f["node"]]["creator"])
            for f in tables["file"]}


def attached_graph(graph_text):
    """Canonical text of attached nodes, with references to detached nodes dropped."""
    text = canonical_graph(graph_text, drop_detached=True)
    blocks = []
    for block in text.split("\n\n"):
        lines = block.split("\n")
        succeeded = any(ln.strip() == "state = SUCCEEDED" for ln in lines)
        keep = []
        for ln in lines:
            stripped = ln.lstrip()
            if stripped.startswith(("creator ", "source ", "product ", "sink ")) and \
                    ln.split("   ")[-1].startswith("("):
                continue  # a reference to a detached node: not part of the active workflow
            if lines[0].startswith("step:") and not succeeded and stripped.startswith(
                    ("inp_digest", "out_digest", "explained")):
                # The stored hash of a step that is not SUCCEEDED is a skip hint, not a state
                # or a relation: it may or may not be there (e.g. a reverted optional step).
                continue
            keep.append(ln)
        blocks.append("\n".join(keep))
    return "\n\n".join(blocks)


def returncode_class(rc):
    from stepup.core.enums import ReturnCode

    if rc is None:
        return "none"
    bits = []
    for flag in (ReturnCode.INTERNAL, ReturnCode.FAILED, ReturnCode.PENDING, ReturnCode.DRAINED):
        if rc & flag:
            bits.append(flag.name)
    return "+".join(bits) or "OK"


def cleanup_dir(ctx, d):
    os.chdir(ctx.scratch.root)
    shutil.rmtree(d, ignore_errors=True)


def outcome_facts(tables):
    """('outcome', step label, returncode or None) for every attached SUCCEEDED/FAILED step: what
    `stepup browse` shows about the last run of the step is part of the stored result."""
    nodes = {n["i"]: n for n in tables["node"]}
    rows = {o["node"]: o for o in tables.get("step_outcome", [])}
    facts = []
    for s in tables["step"]:
        n = nodes[s["node"]]
        if n["detached"] or s["state"] not in (23, 24):
            continue
        o = rows.get(s["node"])
        facts.append(("outcome", n["label"], None if o is None else o["returncode"],
                      None if o is None else bool(o["stderr"])))
    return sorted(facts, key=repr)


def project_graph(tables, strict=False):
    """Facts about the active workflow, as a sorted list of tuples built from the raw tables.

    Only attached nodes. For a step that is not SUCCEEDED, what an earlier run discovered
    (dynamic edges, amended outputs, the stored hash) is left out unless `strict`: it is a memory
    of a run, not part of what the current plans declare, and a build from scratch that never
    ran the step cannot have it.
    """
    import json as _json

    from stepup.core.enums import FileState, Need, StepState

    nodes = {n["i"]: n for n in tables["node"]}
    steps = {s["node"]: s for s in tables["step"]}
    files = {f["node"]: f for f in tables["file"]}
    hashes = {h["node"]: h for h in tables["step_hash"]}
    dynamic = {d["i"] for d in tables["dynamic_dep"]}

    def key(i):
        n = nodes[i]
        return f"{n['kind']}:{n['label']}"

    def succeeded(i):
        return i in steps and steps[i]["state"] == StepState.SUCCEEDED.value

    skip_nodes = set()
    edges = []
    for dep in tables["dependency"]:
        src, snk = dep["source"], dep["sink"]
        if nodes[src]["detached"] or nodes[snk]["detached"]:
            continue
        is_dyn = dep["i"] in dynamic
        if is_dyn and not strict:
            step_end = src if src in steps else snk
            if not succeeded(step_end):
                if src in steps and nodes[snk]["creator"] == src:
                    skip_nodes.add(snk)  # an amended output of a step that is not succeeded
                continue
        edges.append(("edge", key(src), key(snk), "dynamic" if is_dyn else "initial"))
    if not strict:
        # A file under a static tree gets its node when a step first uses it. When its only
        # users are dynamic edges dropped above, the node is a leftover of that run as well.
        used = {e[1] for e in edges}
        for i, n in nodes.items():
            if i in files and not n["detached"] and n["creator"] is not None and \
                    nodes[n["creator"]]["kind"] == "st" and key(i) not in used:
                skip_nodes.add(i)
    facts = []
    for i, n in nodes.items():
        if n["detached"] or i in skip_nodes:
            continue
        creator = key(n["creator"]) if n["creator"] is not None else None
        if i in steps:
            s = steps[i]
            # The deferral note of a step that nothing needs is a leftover of an earlier run
            # (it is cleared as soon as one of the step's inputs changes state); it says nothing
            # about what the current plans declare, so it is not compared unless `strict`.
            deferred = bool(s["deferred"]) and (strict or s["_implied_need"] != Need.OPTIONAL.value)
            fact = ["step", n["label"], creator, StepState(s["state"]).name,
                    Need(s["need"]).name, Need(s["_implied_need"]).name, deferred]
            if succeeded(i) or strict:
                h = hashes.get(i)
                if h is not None:
                    hj = _json.loads(h["hash"])
                    fact += [str(hj.get("inp_digest"))[:24], str(hj.get("out_digest"))[:24]]
                else:
                    fact += [None, None]
            facts.append(tuple(fact))
        elif i in files:
            f = files[i]
            digest = None
            if f["hash"] is not None and f["state"] in (FileState.CONFIRMED.value,
                                                        FileState.BUILT.value):
                hj = _json.loads(f["hash"])
                digest = (str(hj.get("digest"))[:24], hj.get("mode"), hj.get("size"))
            facts.append(("file", n["label"], creator, FileState(f["state"]).name, digest))
        else:
            facts.append((n["kind"], n["label"], creator))
    for e in tables["env_var"]:
        if not nodes[e["node"]]["detached"] and (not e["dynamic"] or strict
                                                  or succeeded(e["node"])):
            # The stored value is a change-detection cache (refreshed when the step is
            # re-declared), not part of the workflow's relations.
            facts.append(("env", key(e["node"]), e["name"], bool(e["dynamic"])))
    for g in tables["nglob"]:
        if not nodes[g["node"]]["detached"]:
            data = _json.loads(g["data"])
            facts.append(("nglob", key(g["node"]), g["pattern"],
                          _json.dumps(data.get("results"), sort_keys=True)))
    for r in tables["step_resource"]:
        if not nodes[r["node"]]["detached"]:
            facts.append(("resource", key(r["node"]), r["name"], r["units"]))
    edges = [e for e in edges
             if not any(e[j].split(":", 1)[1] == nodes[i]["label"] and e[j].startswith("file:")
                        for i in skip_nodes for j in (1, 2))]
    return sorted([*facts, *edges], key=repr)


def diff_facts(a, b, name_a="scratch", name_b="incremental"):
    sa, sb = set(a), set(b)
    lines = [f"only in {name_a}: {f!r}" for f in sorted(sa - sb, key=repr)]
    lines += [f"only in {name_b}: {f!r}" for f in sorted(sb - sa, key=repr)]
    return "\n".join(lines[:60])


def needed_steps(tables, targets=(), target_dirs=()):
    """label -> implied need (int) by the definition of the property, as a fixed point in Python.

    need(s) = max(declared need, TARGET if a regular attached output is an exact target,
              TARGET if declared DEFAULT and a regular attached output lies under a target
              directory, max over attached steps c consuming an output of s of need(c)).
    """
    from stepup.core.enums import FileState, Need

    nodes = {n["i"]: n for n in tables["node"]}
    steps = {s["node"]: s for s in tables["step"]}
    files = {f["node"]: f for f in tables["file"]}
    outputs = {}  # step -> [file ids]
    consumers = {}  # file -> [step ids]
    for dep in tables["dependency"]:
        src, snk = dep["source"], dep["sink"]
        if src in steps and snk in files:
            outputs.setdefault(src, []).append(snk)
        elif src in files and snk in steps:
            consumers.setdefault(src, []).append(snk)
    need = {}
    for i, s in steps.items():
        if nodes[i]["detached"]:
            continue
        value = s["need"]
        for f in outputs.get(i, []):
            regular = not nodes[f]["detached"] and files[f]["state"] != FileState.VOLATILE.value
            label = nodes[f]["label"]
            if regular and label in targets:
                value = max(value, Need.TARGET.value)
            if regular and s["need"] == Need.DEFAULT.value and any(
                    label.startswith(d) and len(label) >= len(d) for d in target_dirs):
                value = max(value, Need.TARGET.value)
        need[i] = value
    changed = True
    while changed:
        changed = False
        for i in need:
            best = need[i]
            for f in outputs.get(i, []):
                for c in consumers.get(f, []):
                    if c in need and need[c] > best:
                        best = need[c]
            if best != need[i]:
                need[i] = best
                changed = True
    return {nodes[i]["label"]: v for i, v in need.items()}
