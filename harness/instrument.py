"""Observation of a running director for C09/C10/C15: every committed transaction is dumped
and judged by `harness.invariants`; dispatch decisions and the end of the job loop are bracketed
by wrapping `Scheduler.pop_next_job` and `Builder.job_loop` (in this process only; no repo hook).
"""

import asyncio
import copy

from . import invariants as inv
from .sim import dump_tables


class AbortBuild(BaseException):
    """Raised inside the committing transaction on the first finding: the build is pointless
    from here on, and a corrupted workflow may make the director spin for ever."""


class Instrument:
    def __init__(self, *, wellformed=True, dispatch=True, per_task=False, max_findings=8,
                 fail_fast=True):
        self.fail_fast = fail_fast
        self.do_wellformed = wellformed
        self.do_dispatch = dispatch
        self.per_task = per_task
        self.findings = []  # (signature suffix, message)
        self.max_findings = max_findings
        self.prev = None
        self.pop_task = None
        self.session = None
        self.counts = {"commits": 0, "decisions": 0, "dispatches": 0, "empty_decisions": 0,
                       "phase_ends": 0, "moves": 0}
        self.seen_moves = set()
        self.first = True
        self.observations = {}
        self.aborting = False
        self.open_calls = {}  # task -> list of (commit number, changed tables) of this request
        self.requests = {"accepted": 0, "rejected": 0, "internal-error": 0,
                         "rejected_with_commit": 0}

    # -- installation (called from session_setup)

    def install(self, session):
        from stepup.core.builder import Builder
        from stepup.core.scheduler import Scheduler

        inv.check_constants()
        self.session = session
        session.observer.before_hooks.append(self.on_commit)
        me = self
        orig_pop = Scheduler.pop_next_job
        orig_loop = Builder.job_loop

        async def pop_next_job(sched):
            me.pop_task = asyncio.current_task()
            try:
                return await orig_pop(sched)
            finally:
                me.pop_task = None

        async def job_loop(builder):
            await orig_loop(builder)
            await me.phase_ended(builder)

        if self.per_task:
            session.call_hooks.append(self)
            session.observer.rollback_hooks.append(self.on_rollback)
        session.patches.append((Scheduler, "pop_next_job", pop_next_job))
        session.patches.append((Builder, "job_loop", job_loop))

    def note(self, sig, msg):
        if len(self.findings) < self.max_findings:
            self.findings.append((sig, msg))
        if self.fail_fast and not self.aborting:
            self.aborting = True
            raise AbortBuild(sig)

    # -- configuration read from the live objects (inputs, not cached state)

    def _config(self):
        h = self.session.handler
        wf = h.workflow
        targets = {str(t) for t in wf.targets}
        tdirs = [str(t) for t in wf.target_dirs]
        threshold = inv.DEFAULT if targets or tdirs else inv.OPTIONAL
        return targets, tdirs, threshold

    def _avail(self, con):
        try:
            return {name: units for name, units in con.execute(
                "SELECT name, units FROM available_resource")}
        except Exception:  # noqa: BLE001 - table not created yet
            return {}

    # -- every commit

    def on_commit(self, con, ncommit):
        tables = dump_tables(con)
        cur = inv.View(tables)
        self.counts["commits"] += 1
        if self.do_wellformed:
            for sig, msg in inv.wellformed(cur):
                self.note("invariant/" + sig, f"after commit {ncommit}: {msg}")
            if self.prev is not None:
                in_flight = set()
                if self.session.handler is not None:
                    in_flight = {st.i for st in self.session.handler.scheduler.jobs.values()}
                for sig, msg in inv.moves(self.prev, cur, boundary=self.first,
                                          in_flight=in_flight):
                    if sig == "observation":
                        self.observations[msg] = self.observations.get(msg, 0) + 1
                    else:
                        self.note("move/" + sig, f"in commit {ncommit}: {msg}")
                for i, s in cur.steps.items():
                    p = self.prev.steps.get(i)
                    if p is not None and p["state"] != s["state"]:
                        self.seen_moves.add((p["state"], s["state"]))
        if self.do_dispatch and self.session.handler is not None \
                and asyncio.current_task() is self.pop_task and self.pop_task is not None:
            self.decision(con, cur, ncommit)
        if self.per_task:
            task = asyncio.current_task()
            if task in self.open_calls:
                changed = [] if self.prev is None else [
                    t for t in tables if tables[t] != self.prev.tables[t]]
                self.open_calls[task].append((ncommit, changed, self.prev, cur))
        self.prev = cur
        self.first = False

    def on_rollback(self, con):
        self.counts["rollbacks"] = self.counts.get("rollbacks", 0) + 1
        if self.prev is None:
            return
        tables = dump_tables(con)
        changed = [t for t in tables if tables[t] != self.prev.tables[t]]
        if changed:
            self.note("atomicity/rolled-back-transaction-left-changes",
                      f"after the rollback {changed} differ from the last committed state: "
                      + table_diff(self.prev.tables, tables))
            self.prev = inv.View(tables)

    # -- C15: requests of simulated steps (called from Session._call, same task as the handler)

    def call_started(self, ctx, opname):
        self.open_calls[asyncio.current_task()] = []

    def call_finished(self, ctx, opname, outcome):
        txs = self.open_calls.pop(asyncio.current_task(), [])
        self.requests[outcome] += 1
        mutating = [(n, changed, a, b) for n, changed, a, b in txs if changed]
        if outcome != "accepted":
            if txs:
                self.requests["rejected_with_commit"] += 1
            if mutating:
                n, changed, a, b = mutating[0]
                self.note(f"atomicity/rejected-request-changed-workflow/{opname}",
                          f"{opname} from {ctx['label']!r} was rejected, yet its transaction "
                          f"(commit {n}) changed {changed}: " + table_diff(a.tables, b.tables))
        elif len(mutating) > 1:
            self.note(f"atomicity/request-applied-in-several-transactions/{opname}",
                      f"{opname} from {ctx['label']!r} changed the workflow in commits "
                      f"{[(n, changed) for n, changed, _, _ in mutating]}")

    # -- a dispatch decision (the transaction of Scheduler.pop_next_job)

    def decision(self, con, cur, ncommit):
        self.counts["decisions"] += 1
        prev = self.prev
        dispatched = []
        for i, s in cur.steps.items():
            p = prev.steps.get(i) if prev is not None else None
            if s["state"] in (inv.RUNNING, inv.CHECKING) and p is not None \
                    and p["state"] == inv.PENDING:
                dispatched.append(i)
        # the state the decision was taken on: the dispatched step still PENDING
        tables = cur.tables
        if dispatched:
            tables = dict(tables)
            tables["step"] = [dict(s, state=inv.PENDING) if s["node"] in dispatched else s
                              for s in tables["step"]]
        view = inv.View(tables)
        targets, tdirs, threshold = self._config()
        defs = inv.definitions(view, targets, tdirs)
        where = f"decision at commit {ncommit}"
        for i, s in view.steps.items():
            n = view.nodes.get(i)
            if n is None or n["detached"]:
                continue
            d = defs[i]
            for col, key in (("_safe", "safe"), ("_safe_ignoring_hold", "safe_nh"),
                             ("_ready", "ready")):
                if bool(s[col]) != bool(d[key]):
                    self.note(f"cached-attribute-disagrees/{col}",
                              f"{where}: {view.label(i)} has {col}={s[col]}, definition gives "
                              f"{d[key]}")
            if s["_implied_need"] != d["implied_need"]:
                self.note("cached-attribute-disagrees/_implied_need",
                          f"{where}: {view.label(i)} has _implied_need={s['_implied_need']}, "
                          f"definition gives {d['implied_need']}")
        el = inv.eligible(view, defs, self._avail(con), threshold)
        if len(dispatched) > 1:
            self.note("several-steps-dispatched-at-once",
                      f"{where}: {[view.label(i) for i in dispatched]}")
        for i in dispatched:
            self.counts["dispatches"] += 1
            mode = "check" if cur.steps[i]["state"] == inv.CHECKING else "run"
            if i not in el:
                self.note("ineligible-step-dispatched/" + self._why_not(view, defs, i, threshold,
                                                                        self._avail(con)),
                          f"{where}: {view.label(i)} dispatched to "
                          f"{inv.STEP_NAMES[cur.steps[i]['state']]}; step row {view.steps[i]}, "
                          f"definitions {defs[i]}")
            elif el[i] != mode:
                self.note("dispatched-in-wrong-mode",
                          f"{where}: {view.label(i)} dispatched to {mode}, eligible for {el[i]}")
        if not dispatched:
            self.counts["empty_decisions"] += 1
            if el and not self.session.handler.scheduler.draining:
                self.note("eligible-step-not-dispatched",
                          f"{where}: nothing dispatched while eligible: "
                          f"{[(view.label(i), m) for i, m in el.items()]}")

    @staticmethod
    def _why_not(view, defs, i, threshold, avail):
        s, n, d = view.steps[i], view.nodes[i], defs[i]
        if n["detached"]:
            return "detached"
        if s["deferred"]:
            return "deferred"
        if d["implied_need"] <= threshold:
            return "not-needed"
        if not d["ready"]:
            return "input-unavailable"
        if not d["safe_nh"]:
            return "creator-not-running-or-succeeded"
        if not d["safe"] and i not in view.has_hash:
            return "held-back"
        return "resource-not-free"

    # -- end of the job loop

    async def phase_ended(self, builder):
        if not self.do_dispatch:
            return
        self.counts["phase_ends"] += 1
        draining = bool(builder.scheduler.draining)
        async with builder.db:
            con = builder.db._require_transaction_con()
            view = inv.View(dump_tables(con))
            avail = self._avail(con)
        if draining:
            return
        targets, tdirs, threshold = self._config()
        defs = inv.definitions(view, targets, tdirs)
        busy = [view.label(i) for i, s in view.steps.items()
                if s["state"] in (inv.RUNNING, inv.CHECKING) and not view.nodes[i]["detached"]]
        if busy:
            self.note("phase-ended-with-step-in-flight", f"{busy}")
        el = inv.eligible(view, defs, avail, threshold)
        if el:
            self.note("phase-ended-with-eligible-step",
                      f"job loop ended (not draining) while these steps satisfy every dispatch "
                      f"condition: {[(view.label(i), m) for i, m in el.items()]}")


def table_diff(a, b, limit=6):
    out = []
    for t in a:
        ra = {repr(sorted(r.items())) for r in a[t]}
        rb = {repr(sorted(r.items())) for r in b[t]}
        for r in sorted(ra - rb)[:limit]:
            out.append(f"-{t} {r[:200]}")
        for r in sorted(rb - ra)[:limit]:
            out.append(f"+{t} {r[:200]}")
    return "; ".join(out[:2 * limit])
