"""Project specifications for the E1 engine: generation, edits, rendering to real files.

A *spec* is a JSON-able dict that describes a StepUp project made of plan scripts and work-step
scripts whose bodies are programs for `harness.sim`:

    spec = {
      "sources": {path: content},          user data files
      "steps":   {name: stepdef},          work steps
      "plans":   {plan_path: {"workdir": ".", "items": [...]}},   "plan.py" is the root plan
      "env":     {NAME: value or None},    tracked environment variables
      "static_style": {dir: "files"|"tree"|"pattern"}
    }
    stepdef = {"script", "args", "workdir", "inp", "out", "vol", "env", "need", "resources",
               "amend_inp", "amend_out", "read_first", "fail", "partial", "variant"}
    plan items: ["step", name] | ["plan", plan_path] | ["hold"] | ["release"]
                | ["glob_each", pattern, template_name]

Specs are legal StepUp projects by construction (unique outputs, inputs are sources or outputs
of earlier steps), unless an edit breaks that on purpose.
"""

import copy
import json
import os

from hypothesis import strategies as st

from .sim import render_script, write_file

SRC_DIRS = ["", "data/", "src/", "data/deep/"]
OUT_DIRS = ["out/", "out2/", "gen/", "sub/out/", "Out/"]
ENV_NAMES = ["VERIF_A", "VERIF_B"]
RESOURCES = ["gpu", "lic"]


def step_label(sd):
    """The label StepUp gives to the step (command plus workdir comment)."""
    wd = sd["workdir"]
    script = sd["script"]
    rel = os.path.relpath(script, wd if wd != "." else ".")
    cmd = "./" + rel
    if sd.get("args"):
        cmd += " " + " ".join(sd["args"])
    return cmd if wd == "." else f"{cmd}  # wd={wd}", cmd


def plan_label(plan_path, workdir):
    rel = os.path.relpath(plan_path, workdir if workdir != "." else ".")
    cmd = "./" + rel
    return cmd if workdir == "." else f"{cmd}  # wd={workdir}", cmd


# ---------------------------------------------------------------------------------------------
# Rendering


def step_program(sd):
    prog = []
    for p in sd["inp"]:
        prog.append(["read", p.replace("${n}", "$1")])
    for n in sd.get("env", []):
        prog.append(["env", n])
    for n in sorted(sd.get("env_overrides") or {}):
        # a step-specific override: read, not declared (the director forbids declaring it)
        prog.append(["env", n])
    if sd.get("variant"):
        # A different script body that also changes what the step computes.
        prog.append(["env", "VERIF_VARIANT_" + str(sd["variant"])])
    amend = {}
    if sd.get("amend_inp"):
        amend["inp"] = list(sd["amend_inp"])
    if sd.get("amend_out"):
        amend["out"] = list(sd["amend_out"])
    if sd.get("amend_env"):
        amend["env"] = list(sd["amend_env"])
    if amend:
        if sd.get("read_first"):
            # The step peeks at the file before announcing it (allowed by the documentation of
            # amend()); what counts for its result is what it reads after the announcement.
            for p in sd.get("amend_inp", []):
                prog.append(["peek", p])
        if sd.get("amend_seq") and len(sd.get("amend_inp", [])) > 1:
            # one announcement per input: the step can be deferred once for each of them
            first = True
            for p in sd["amend_inp"]:
                part = {"inp": [p]}
                if first:
                    part.update({k: v for k, v in amend.items() if k != "inp"})
                first = False
                prog.append(["amend", part])
        else:
            prog.append(["amend", amend])
        for p in sd.get("amend_inp", []):
            prog.append(["read", p])
        for n in sd.get("amend_env", []):
            prog.append(["env", n])
    outs = [p.replace("${n}", "$1") for p in
            list(sd["out"]) + list(sd.get("vol", [])) + list(sd.get("amend_out", []))]
    if sd.get("partial"):
        for p in outs:
            prog.append(["write_partial", p])
    if sd.get("fail") == "early":
        prog.append(["fail", 1])
    for p in outs:
        prog.append(["write", p])
    if sd.get("fail") == "late":
        prog.append(["fail", 1])
    return prog


def static_decl(paths, style):
    """Static declarations for a set of paths according to the per-directory style."""
    by_dir = {}
    for p in sorted(set(paths)):
        by_dir.setdefault(os.path.dirname(p), []).append(p)
    args = []
    for d, ps in sorted(by_dir.items()):
        mode = style.get(d + "/" if d else "", "files")
        if d == "" or mode == "files":
            args.extend(ps)
        elif mode == "tree":
            args.append(d + "/")
        else:
            args.append(d + "/*")
    # trees and patterns may swallow deeper directories: keep only the outermost tree
    trees = [a for a in args if a.endswith("/")]
    result = []
    for a in args:
        if any(a != t and a.startswith(t) for t in trees):
            continue
        if a not in result:
            result.append(a)
    return result


def plan_program(spec, plan_path):
    plan = spec["plans"][plan_path]
    style = spec.get("static_style", {})
    needed = []
    prog = []
    body = []
    for item in plan["items"]:
        kind = item[0]
        if kind == "step":
            sd = spec["steps"][item[1]]
            _, cmd = step_label(sd)
            needed.append(sd["script"])
            stepspec = {"cmd": cmd, "inp": [sd["script"], *sd["inp"]], "out": list(sd["out"]),
                        "vol": list(sd.get("vol", [])), "env": list(sd.get("env", [])),
                        "workdir": sd["workdir"], "need": sd.get("need", "default")}
            if sd.get("resources"):
                stepspec["resources"] = dict(sd["resources"])
            if sd.get("env_overrides"):
                stepspec["env_overrides"] = dict(sd["env_overrides"])
            body.append(["step", stepspec])
        elif kind == "plan":
            sub = spec["plans"][item[1]]
            _, cmd = plan_label(item[1], sub["workdir"])
            needed.append(item[1])
            body.append(["step", {"cmd": cmd, "inp": [item[1]], "workdir": sub["workdir"],
                                  "need": "plan"}])
        elif kind in ("hold", "release"):
            body.append([kind])
        elif kind == "fail_plan":
            body.append(["fail", 1])
        elif kind == "glob_each":
            _, pattern, tname, subs = (item + [{}])[:4]
            sd = spec["steps"][tname]
            needed.append(sd["script"])
            body.append(["glob", pattern, dict(subs)])
            _, cmd = step_label(sd)
            body.append(["for_each", {"cmd": cmd, "inp": [sd["script"], *sd["inp"]],
                                      "out": list(sd["out"]), "vol": list(sd.get("vol", [])),
                                      "env": list(sd.get("env", [])), "workdir": sd["workdir"],
                                      "need": sd.get("need", "default"),
                                      "env_overrides": dict(sd.get("env_overrides") or {})}])
        elif kind == "static_extra":
            body.append(["static", list(item[1])])
        elif kind == "glob_only":
            body.append(["glob", item[1], {}])
        elif kind == "step_raw":
            body.append(["step", dict(item[1])])
        elif kind == "pause":
            body.append(["sleep", 1])
        elif kind == "chaos":
            body.append(item[1])
    if plan_path == "plan.py":
        # Every source has exactly one declaration: the root plan declares all sources that any
        # active step uses (initially, dynamically or through a glob).
        for name in active_steps(spec):
            sd = spec["steps"][name]
            needed.extend(p for p in sd["inp"] + sd.get("amend_inp", []) if p in spec["sources"])
        for pp in active_plans(spec):
            for item in spec["plans"][pp]["items"]:
                if item[0] == "glob_each":
                    # every match must be justified: the whole directory is declared
                    d = os.path.dirname(item[1])
                    needed.extend(p for p in spec["sources"] if os.path.dirname(p) == d)
    late = spec.get("static_late") if plan_path == "plan.py" else None
    if late is not None:
        # Schedule-sensitive variant (C02): only the plan scripts are declared up front; all
        # other sources are declared at the end of the root plan, after `late` idle turns, so
        # that steps of concurrently running sub-plans reference them before or after their
        # declaration depending on the schedule.
        early = [p for p in needed if p in spec["plans"]]
        rest = [p for p in needed if p not in spec["plans"]]
        decl = static_decl([p for p in early if p != "plan.py"], style)
        if decl:
            prog.append(["static", decl])
        decl = static_decl(rest, style)
        tail = [["sleep", 1]] * int(late)
        if decl:
            tail.append(["static", decl])
        fail = [op for op in body if op[0] == "fail"]
        if fail:
            k = body.index(fail[0])
            return prog + body[:k] + tail + body[k:]
        return prog + body + tail
    decl = static_decl([p for p in needed if p != "plan.py"], style)
    if decl:
        prog.append(["static", decl])
    return prog + body


def _glob_match(pattern, path):
    import re

    from stepup.core.nglob import convert_nglob_to_regex

    return re.fullmatch(convert_nglob_to_regex(pattern), path) is not None


def render(spec):
    """Return {path: (text, executable)} for every file the user provides."""
    files = {}
    for path, content in spec["sources"].items():
        files[path] = (content, False)
    for sd in spec["steps"].values():
        files[sd["script"]] = (render_script(step_program(sd)), True)
    for plan_path in spec["plans"]:
        files[plan_path] = (render_script(plan_program(spec, plan_path)), True)
    return files


def materialize(spec, previous_user_files=()):
    """Write the project's user files into the cwd; delete user files that the spec dropped.

    Returns the set of user-provided paths. Files whose content is unchanged are not rewritten
    (so that mtime/inode stay put, as with a real editor-less history).
    """
    files = render(spec)
    for path in previous_user_files:
        if path not in files and os.path.isfile(path):
            os.remove(path)
            # The user removes a directory together with its last file
            # (so that the tree is what a fresh checkout of the same sources would be).
            parent = os.path.dirname(path)
            while parent and os.path.isdir(parent) and not os.listdir(parent):
                os.rmdir(parent)
                parent = os.path.dirname(parent)
    for path, (text, executable) in files.items():
        if os.path.isfile(path):
            with open(path) as fh:
                if fh.read() == text:
                    continue
        write_file(path, text, executable)
    return set(files)


# ---------------------------------------------------------------------------------------------
# Reference facts derived from a spec (pure Python, no StepUp code)


def active_plans(spec):
    """Plan scripts reachable from plan.py."""
    seen, todo = [], ["plan.py"]
    while todo:
        p = todo.pop()
        if p in seen or p not in spec["plans"]:
            continue
        seen.append(p)
        for item in spec["plans"][p]["items"]:
            if item[0] == "plan":
                todo.append(item[1])
    return seen


def active_steps(spec):
    """Names of work steps defined by reachable plans (glob_each templates excluded)."""
    names = []
    for p in active_plans(spec):
        for item in spec["plans"][p]["items"]:
            if item[0] == "step":
                names.append(item[1])
    return names


def glob_values(spec, pattern, subs):
    """Capture values of the (single) named wildcard for every source matching the pattern."""
    import re

    from stepup.core.nglob import convert_nglob_to_regex

    regex = re.compile(convert_nglob_to_regex(pattern, dict(subs)))
    values = []
    for p in sorted(spec["sources"]):
        m = regex.fullmatch(p)
        if m:
            values.append(m.groupdict())
    return values


def instantiate(sd, mapping):
    text = json.dumps(sd)
    for key, value in mapping.items():
        text = text.replace("${" + key + "}", value)
    return json.loads(text)


def active_step_defs(spec):
    """key -> concrete step definition, for plain steps and for every glob_each instance."""
    result = {}
    for p in active_plans(spec):
        for item in spec["plans"][p]["items"]:
            if item[0] == "step":
                result[item[1]] = spec["steps"][item[1]]
            elif item[0] == "glob_each":
                _, pattern, tname, subs = (item + [{}])[:4]
                for mapping in glob_values(spec, pattern, subs):
                    key = tname + ":" + ",".join(f"{k}={v}" for k, v in sorted(mapping.items()))
                    result[key] = instantiate(spec["steps"][tname], mapping)
    return result


def declared_outputs(spec):
    result = {}
    for name, sd in active_step_defs(spec).items():
        for p in sd["out"] + sd.get("amend_out", []):
            result[p] = (name.split(":")[0], "out")
        for p in sd.get("vol", []):
            result[p] = (name.split(":")[0], "vol")
    return result


# ---------------------------------------------------------------------------------------------
# Generation


@st.composite
def specs(draw, max_steps=6, features=None):
    features = features or {}
    nsrc = draw(st.integers(1, 5))
    sources = {}
    for i in range(nsrc):
        d = draw(st.sampled_from(SRC_DIRS))
        sources[f"{d}s{i}.txt"] = f"source {i} v0\n"
    use_sub = draw(st.booleans())
    use_deep = use_sub and draw(st.booleans())
    plans = {"plan.py": {"workdir": ".", "items": []}}
    if use_sub:
        plans["sub/plan.py"] = {"workdir": "sub", "items": []}
        plans["plan.py"]["items"].append(["plan", "sub/plan.py"])
    if use_deep:
        plans["sub/deep/plan.py"] = {"workdir": "sub/deep", "items": []}
        plans["sub/plan.py"]["items"].append(["plan", "sub/deep/plan.py"])
    nsteps = draw(st.integers(1, max_steps))
    steps = {}
    produced = []  # (path, producer name, optional?)
    env = {}
    for i in range(nsteps):
        name = f"w{i}"
        target = draw(st.sampled_from(sorted(plans)))
        workdir = plans[target]["workdir"]
        in_sub = workdir != "."
        script = ("" if workdir == "." else workdir + "/") + f"{name}.py"
        ninp = draw(st.integers(0, 3))
        pool = sorted(sources) + [p for p, _, _ in produced]
        inp = sorted(set(draw(st.lists(st.sampled_from(pool), max_size=ninp)))) if pool else []
        nout = draw(st.integers(0 if inp else 1, 2))
        out = []
        for k in range(nout):
            d = draw(st.sampled_from(OUT_DIRS))
            out.append(f"{d}{name}_{k}.out")
        optional = draw(st.integers(0, 3)) == 0 and nout > 0
        sd = {"script": script, "args": [], "workdir": workdir, "inp": inp, "out": out, "vol": [],
              "env": [], "need": "optional" if optional else "default", "resources": {},
              "amend_inp": [], "amend_out": [], "read_first": False, "fail": None,
              "partial": False, "variant": 0}
        if draw(st.integers(0, 4)) == 0:
            sd["vol"] = [f"{draw(st.sampled_from(OUT_DIRS))}{name}.vol"]
        if draw(st.integers(0, 3)) == 0:
            chosen = sorted(set(draw(st.lists(st.sampled_from(ENV_NAMES), min_size=1,
                                              max_size=2))))
            sd["env"] = chosen
            for n in chosen:
                env.setdefault(n, draw(st.sampled_from([None, "1", "x"])))
        if pool and draw(st.integers(0, 2)) == 0:
            cand = [p for p in pool if p not in inp]
            if cand:
                sd["amend_inp"] = sorted(set(draw(st.lists(st.sampled_from(cand), min_size=1,
                                                            max_size=2))))
                sd["read_first"] = draw(st.booleans())
        if draw(st.integers(0, 5)) == 0 and not optional:
            # Not for optional steps: an output that is only discovered by running the step
            # cannot make the step needed, so a consumer of it would never converge from scratch.
            sd["amend_out"] = [f"{draw(st.sampled_from(OUT_DIRS))}{name}_dyn.out"]
        if draw(st.integers(0, 5)) == 0:
            sd["resources"] = {draw(st.sampled_from(RESOURCES)): draw(st.integers(1, 2))}
        if draw(st.integers(0, 4)) == 0:
            sd["partial"] = True
        steps[name] = sd
        for p in out + sd["amend_out"]:
            produced.append((p, name, optional))
        plans[target]["items"].append(["step", name])
    # an optional producer in the root plan consumed only from the sub-plan
    if use_sub and draw(st.integers(0, 2)) == 0:
        steps["wp"] = {"script": "wp.py", "args": [], "workdir": ".", "inp": sorted(sources)[:1],
                       "out": ["gen/wp_0.out"], "vol": [], "env": [], "need": "optional",
                       "resources": {}, "amend_inp": [], "amend_out": [], "read_first": False,
                       "fail": None, "partial": False, "variant": 0}
        deepest = "sub/deep/plan.py" if use_deep else "sub/plan.py"
        wcdir = plans[deepest]["workdir"]
        steps["wc"] = {"script": wcdir + "/wc.py", "args": [], "workdir": wcdir,
                       "inp": ["gen/wp_0.out"], "out": ["sub/out/wc_0.out"], "vol": [], "env": [],
                       "need": "default", "resources": {}, "amend_inp": [], "amend_out": [],
                       "read_first": False, "fail": None, "partial": False, "variant": 0}
        if draw(st.booleans()):
            steps["wc"]["inp"], steps["wc"]["amend_inp"] = [], ["gen/wp_0.out"]
        plans["plan.py"]["items"].append(["step", "wp"])
        plans[deepest]["items"].append(["step", "wc"])
    # a glob with a custom sub-pattern and one step per match, next to look-alike files
    if draw(st.integers(0, 2)) == 0:
        d = draw(st.sampled_from(["src/", "data/"]))
        for i in range(draw(st.integers(1, 2))):
            sources.setdefault(f"{d}s{i}.txt", f"source {d}{i} v0\n")
        if draw(st.booleans()):
            sources.setdefault(f"{d}snotes.txt", "look-alike\n")
        steps["conv"] = {"script": "conv.py", "args": ["${n}"], "workdir": ".",
                         "inp": [d + "${n}.txt"], "out": ["gen/conv_${n}.out"], "vol": [],
                         "env": [], "need": "default", "resources": {}, "amend_inp": [],
                         "amend_out": [], "read_first": False, "fail": None, "partial": False,
                         "variant": 0}
        plans["plan.py"]["items"].append(["glob_each", d + "${*n}.txt", "conv",
                                          {"n": draw(st.sampled_from(["s[0-9]", "s?", "s[0-9]"]))}])
    # hold blocks
    if draw(st.integers(0, 3)) == 0:
        for plan in plans.values():
            idx = [i for i, it in enumerate(plan["items"]) if it[0] == "step"]
            if len(idx) >= 1 and draw(st.booleans()):
                a = draw(st.sampled_from(idx))
                plan["items"].insert(a, ["hold"])
                b = draw(st.integers(a + 2, len(plan["items"])))
                plan["items"].insert(b, ["release"])
    style = {}
    for d in {os.path.dirname(p) + "/" for p in sources if os.path.dirname(p)}:
        style[d] = draw(st.sampled_from(["files", "files", "tree", "pattern"]))
    for d in {os.path.dirname(p) + "/" for p in sources if os.path.dirname(p)}:
        style.setdefault(d, "files")
    spec = {"sources": sources, "steps": steps, "plans": plans, "env": env,
            "static_style": style}
    return spec


EDIT_KINDS = [
    "change_source", "change_source", "add_source", "delete_source", "drop_step", "readd_step",
    "change_env", "drop_subplan", "revert_env", "revert_env",
    "modify_step_inputs", "rename_output", "toggle_optional", "toggle_vol", "move_step",
    "drop_subplan", "readd_subplan", "restyle_static", "change_env", "change_script",
    "toggle_fail", "toggle_amend", "noop", "toggle_override",
]


@st.composite
def edits(draw, spec, stash, kinds=None):
    """Draw one edit and return (description, new_spec). `stash` keeps dropped definitions."""
    spec = copy.deepcopy(spec)
    kind = draw(st.sampled_from(kinds or EDIT_KINDS))
    names = active_steps(spec)
    desc = [kind]

    def remove_item(item):
        for plan in spec["plans"].values():
            if item in plan["items"]:
                plan["items"].remove(item)
                return True
        return False

    if kind == "change_source" and spec["sources"]:
        p = draw(st.sampled_from(sorted(spec["sources"])))
        v = draw(st.integers(1, 3))
        spec["sources"][p] = f"{p} v{v}\n"
        desc += [p, v]
    elif kind == "add_source":
        d = draw(st.sampled_from(SRC_DIRS))
        # names starting with "s" may become new matches of a glob_each pattern
        p = f"{d}{draw(st.sampled_from(['n', 's', 's']))}{draw(st.integers(0, 4))}.txt"
        spec["sources"].setdefault(p, f"new {p}\n")
        desc.append(p)
    elif kind == "delete_source" and len(spec["sources"]) > 1:
        p = draw(st.sampled_from(sorted(spec["sources"])))
        del spec["sources"][p]
        # consumers keep referring to it: a missing input, on purpose, in 1 of 3 cases
        if draw(st.integers(0, 2)) != 0:
            for sd in spec["steps"].values():
                sd["inp"] = [q for q in sd["inp"] if q != p]
                sd["amend_inp"] = [q for q in sd["amend_inp"] if q != p]
        desc.append(p)
    elif kind == "drop_step" and names:
        n = draw(st.sampled_from(names))
        remove_item(["step", n])
        stash.setdefault("dropped", []).append(n)
        desc.append(n)
    elif kind == "readd_step" and stash.get("dropped"):
        n = draw(st.sampled_from(stash["dropped"]))
        if n not in names and n in spec["steps"]:
            stash["dropped"].remove(n)
            sd = spec["steps"][n]
            home = [p for p in active_plans(spec) if spec["plans"][p]["workdir"] == sd["workdir"]]
            target = home[0] if home else "plan.py"
            if target == "plan.py":
                sd["workdir"] = "."
                sd["script"] = os.path.basename(sd["script"])
            spec["plans"][target]["items"].append(["step", n])
            if draw(st.booleans()):
                sd["variant"] = sd.get("variant", 0) + 1
                desc.append("modified")
            desc.append(n)
    elif kind == "modify_step_inputs" and names:
        n = draw(st.sampled_from(names))
        sd = spec["steps"][n]
        own = set(sd["out"] + sd["amend_out"] + sd["vol"])
        pool = sorted(spec["sources"]) + sorted(
            p for p, (m, role) in declared_outputs(spec).items()
            if role == "out" and m < n and p not in own)
        if pool:
            sd["inp"] = sorted(set(draw(st.lists(st.sampled_from(pool), max_size=3))))
        desc.append(n)
    elif kind == "rename_output" and names:
        n = draw(st.sampled_from(names))
        sd = spec["steps"][n]
        if sd["out"]:
            old = sd["out"][0]
            new = old.replace(".out", "r.out") if "r.out" not in old else old.replace("r.out",
                                                                                     ".out")
            sd["out"][0] = new
            for other in spec["steps"].values():
                other["inp"] = [new if q == old else q for q in other["inp"]]
                other["amend_inp"] = [new if q == old else q for q in other["amend_inp"]]
            desc += [n, old, new]
    elif kind == "toggle_optional" and names:
        n = draw(st.sampled_from(names))
        sd = spec["steps"][n]
        if sd["out"]:
            sd["need"] = "default" if sd["need"] == "optional" else "optional"
            if sd["need"] == "optional" and sd["amend_out"]:
                gone = set(sd["amend_out"])
                sd["amend_out"] = []
                for other in spec["steps"].values():
                    other["inp"] = [q for q in other["inp"] if q not in gone]
                    other["amend_inp"] = [q for q in other["amend_inp"] if q not in gone]
        desc.append(n)
    elif kind == "toggle_vol" and names:
        n = draw(st.sampled_from(names))
        sd = spec["steps"][n]
        used = {q for o in spec["steps"].values() for q in o["inp"] + o["amend_inp"]}
        if sd["vol"]:
            sd["out"].append(sd["vol"].pop())
        else:
            free = [p for p in sd["out"] if p not in used]
            if free and len(sd["out"]) > 1:
                sd["out"].remove(free[0])
                sd["vol"].append(free[0])
        desc.append(n)
    elif kind == "move_step" and names and len(active_plans(spec)) > 1:
        n = draw(st.sampled_from(names))
        sd = spec["steps"][n]
        others = [p for p in active_plans(spec) if spec["plans"][p]["workdir"] != sd["workdir"]]
        if others and remove_item(["step", n]):
            target = draw(st.sampled_from(sorted(others)))
            wd = spec["plans"][target]["workdir"]
            sd["workdir"] = wd
            sd["script"] = ("" if wd == "." else wd + "/") + os.path.basename(sd["script"])
            spec["plans"][target]["items"].append(["step", n])
        desc.append(n)
    elif kind == "drop_subplan":
        cands = [(p, it) for p in active_plans(spec) for it in spec["plans"][p]["items"]
                 if it[0] == "plan"]
        if cands:
            parent, item = draw(st.sampled_from(sorted(cands)))
            spec["plans"][parent]["items"].remove(item)
            stash.setdefault("subplans", []).append([parent, item[1]])
            desc += [parent, item[1]]
            # consumers of outputs produced below the dropped plan become unbuildable on purpose
    elif kind == "readd_subplan" and stash.get("subplans"):
        parent, child = draw(st.sampled_from(stash["subplans"]))
        if parent in active_plans(spec) and child not in active_plans(spec):
            stash["subplans"].remove([parent, child])
            defined = set(active_steps(spec))
            for pp in [child] + [q for q in spec["plans"] if q.startswith(
                    os.path.dirname(child) + "/") and q != child]:
                spec["plans"][pp]["items"] = [
                    it for it in spec["plans"][pp]["items"]
                    if it[0] != "step" or (it[1] in spec["steps"] and it[1] not in defined)]
            spec["plans"][parent]["items"].append(["plan", child])
            desc += [parent, child]
    elif kind == "restyle_static" and spec["static_style"]:
        d = draw(st.sampled_from(sorted(spec["static_style"])))
        spec["static_style"][d] = draw(st.sampled_from(["files", "tree", "pattern"]))
        desc += [d, spec["static_style"][d]]
    elif kind == "toggle_override" and names:
        # add, change or remove the step-specific environment overrides of a step
        n = draw(st.sampled_from(names))
        sd = spec["steps"][n]
        cur = dict(sd.get("env_overrides") or {})
        if cur and draw(st.booleans()):
            sd["env_overrides"] = {}
            desc += [n, "removed"]
        else:
            cur["VERIF_O"] = draw(st.sampled_from(["1", "2"]))
            if draw(st.integers(0, 2)) == 0:
                cur["VERIF_P"] = "p"
            sd["env_overrides"] = cur
            desc += [n, sorted(cur.items())]
    elif kind == "change_env":
        for n in sorted(set(draw(st.lists(st.sampled_from(ENV_NAMES), min_size=1, max_size=2)))):
            spec["env"][n] = draw(st.sampled_from([None, "1", "x", "y"]))
            desc += [n, spec["env"][n]]
    elif kind == "revert_env" and len(stash.get("env_hist", [])) >= 2:
        # put one or two variables back to the value they had before the previous stage
        older = stash["env_hist"][-2]
        changed = [n for n in ENV_NAMES if older.get(n) != spec["env"].get(n)]
        if changed:
            for n in sorted(set(draw(st.lists(st.sampled_from(changed), min_size=1,
                                              max_size=2)))):
                spec["env"][n] = older.get(n)
                desc += [n, spec["env"][n]]
    elif kind == "change_script" and names:
        # also the script of a step whose plan is currently dropped (its nodes may still be in
        # the database, detached, and come back when the plan is added again)
        dormant = sorted(set(spec["steps"]) - set(names))
        pool = names + dormant if dormant and draw(st.booleans()) else names
        n = draw(st.sampled_from(pool))
        spec["steps"][n]["variant"] = spec["steps"][n].get("variant", 0) + 1
        desc.append(n)
    elif kind == "toggle_fail" and names:
        n = draw(st.sampled_from(names))
        sd = spec["steps"][n]
        sd["fail"] = None if sd["fail"] else draw(st.sampled_from(["early", "late"]))
        desc += [n, sd["fail"]]
    elif kind == "toggle_amend" and names:
        n = draw(st.sampled_from(names))
        sd = spec["steps"][n]
        if sd["amend_inp"]:
            sd["amend_inp"] = []
        else:
            own = set(sd["out"] + sd["amend_out"] + sd["vol"])
            pool = sorted(spec["sources"]) + sorted(
                p for p, (m, role) in declared_outputs(spec).items()
                if role == "out" and m < n and p not in own)
            cand = [p for p in pool if p not in sd["inp"]]
            if cand:
                sd["amend_inp"] = [draw(st.sampled_from(cand))]
                sd["read_first"] = draw(st.booleans())
        desc.append(n)
    return desc, spec


RESOURCE_CONFIGS = [None, "gpu:1", "gpu:2,lic:1", "gpu:1,lic:2", "gpu:2,lic:2", "gpu:2,lic:2"]


def build_config(draw, final=False, resources=None):
    cfg = {
        "njob": draw(st.integers(1, 4)),
        "keep_going": draw(st.booleans()),
        "do_clean": True if final else draw(st.integers(0, 4)) != 0,
        "resources": resources,
        "choices": draw(st.lists(st.integers(0, 255), max_size=40)),
    }
    return cfg


FOCUS = {
    # feature-focused campaigns: dense in one family of edits
    "env": {"kinds": ["change_env", "change_env", "revert_env", "revert_env", "change_source",
                      "noop", "change_script", "toggle_override", "toggle_override"],
            "tweak": "env"},
    "glob": {"kinds": ["add_source", "add_source", "delete_source", "change_source",
                       "restyle_static", "noop"], "tweak": "glob"},
    "optional": {"kinds": ["toggle_optional", "toggle_amend", "drop_step", "readd_step",
                           "drop_subplan", "readd_subplan", "modify_step_inputs",
                           "change_source"], "tweak": "optional"},
}


def _tweak_spec(draw, spec, how):
    if how == "env":
        for sd in spec["steps"].values():
            if draw(st.integers(0, 2)) != 0:
                sd["env"] = draw(st.sampled_from([["VERIF_A", "VERIF_B"], ["VERIF_A"],
                                                  ["VERIF_B"], ["VERIF_A", "VERIF_B"]]))
        for n in ENV_NAMES:
            spec["env"].setdefault(n, draw(st.sampled_from([None, "1", "x"])))
    elif how == "optional":
        for sd in spec["steps"].values():
            if sd["out"] and not sd["amend_out"] and draw(st.booleans()):
                sd["need"] = "optional"
    return spec


@st.composite
def histories(draw, max_steps=6, min_builds=2, max_builds=4, focus=None):
    spec = draw(specs(max_steps=max_steps))
    kinds = None
    if focus is not None:
        spec = _tweak_spec(draw, spec, FOCUS[focus]["tweak"])
        kinds = FOCUS[focus]["kinds"]
    stash = {"env_hist": [dict(spec["env"])]}
    nbuilds = draw(st.integers(min_builds, max_builds))
    # The resource declaration is part of the configuration under which builds are compared,
    # so it is the same for every build of a history.
    resources = draw(st.sampled_from(RESOURCE_CONFIGS))
    stages = [{"edit": ["initial"], "spec": spec,
               "build": build_config(draw, final=nbuilds == 1, resources=resources)}]
    for i in range(1, nbuilds):
        nedits = draw(st.integers(1, 2))
        descs = []
        for _ in range(nedits):
            desc, spec = draw(edits(spec, stash, kinds))
            descs.append(desc)
        stash["env_hist"].append(dict(spec["env"]))
        stages.append({"edit": descs, "spec": spec,
                       "build": build_config(draw, final=i == nbuilds - 1, resources=resources)})
    return {"stages": stages}


def spec_fingerprint(spec):
    return json.dumps(spec, sort_keys=True)


# ---------------------------------------------------------------------------------------------
# Feature-dense histories for the engine-level invariants (C09, C10, C15)


def add_holds(draw, spec):
    """Hold blocks in plans: plain, nested, never released, or followed by a failing plan."""
    for plan in spec["plans"].values():
        plan["items"] = [it for it in plan["items"] if it[0] not in ("hold", "release")]
        idx = [i for i, it in enumerate(plan["items"]) if it[0] in ("step", "plan")]
        mode = draw(st.sampled_from(["none", "none", "block", "block", "nested", "unreleased",
                                     "fail_inside"]))
        if not idx or mode == "none":
            continue
        a = draw(st.sampled_from(idx))
        items = plan["items"]
        if mode == "block":
            b = draw(st.integers(a + 1, len(items)))
            items.insert(b, ["release"])
            items.insert(a, ["hold"])
        elif mode == "nested":
            b = draw(st.integers(a + 1, len(items)))
            items.insert(b, ["release"])
            items.insert(b, ["release"])
            items.insert(a, ["hold"])
            items.insert(a, ["hold"])
        elif mode == "unreleased":
            items.insert(a, ["hold"])
        else:
            items.insert(a, ["hold"])
            items.append(["fail_plan"])


@st.composite
def rich_histories(draw, max_steps=6, min_builds=1, max_builds=3):
    """Histories that mix everything the scheduler looks at: optional steps, failures, holds,
    named resources (also undefined ones), targets, small defer caps, keep-going."""
    focus = draw(st.sampled_from([None, None, "optional", "glob", "env"]))
    hist = draw(histories(max_steps=max_steps, min_builds=min_builds, max_builds=max_builds,
                          focus=focus))
    with_holds = draw(st.booleans())
    with_res = draw(st.booleans())
    for k, stage in enumerate(hist["stages"]):
        spec = stage["spec"]
        names = active_steps(spec)
        if names and draw(st.integers(0, 2)) == 0:
            n = draw(st.sampled_from(names))
            spec["steps"][n]["fail"] = draw(st.sampled_from(["early", "late"]))
        if with_res:
            for sd in spec["steps"].values():
                if draw(st.booleans()):
                    sd["resources"] = {draw(st.sampled_from(RESOURCES)): draw(st.integers(1, 2))}
        if with_holds:
            add_holds(draw, spec)
        build = stage["build"]
        if draw(st.integers(0, 3)) == 0:
            build["defer_cap"] = draw(st.integers(1, 3))
        if draw(st.integers(0, 3)) == 0:
            outs = declared_outputs(spec)
            files = sorted(p for p, (_n, role) in outs.items() if role == "out")
            mode = draw(st.sampled_from(["files", "dirs", "mixed"]))
            targets = []
            if mode in ("files", "mixed") and files:
                targets += draw(st.lists(st.sampled_from(files), min_size=1, max_size=2))
            if mode in ("dirs", "mixed"):
                targets += draw(st.lists(st.sampled_from(list(OUT_DIRS) + ["sub/"]),
                                         min_size=1, max_size=2))
            build["targets"] = sorted(set(targets))
    return hist


# ---------------------------------------------------------------------------------------------
# Chaos: declarations drawn from a small universe of paths, most of them conflicting with
# something. They are requests as a client may send them (C08, C09, C15).

CHAOS_SOURCES = {"cf/a.txt": "chaos a\n", "cf/b.txt": "chaos b\n", "cf/deep/c.txt": "chaos c\n"}
CHAOS_DIRS = ["cf/", "cf/deep/", "data/", "out/", "cx/"]
CHAOS_OUTS = ["cx/o1.out", "cx/o2.out", "cx/deep/o3.out", "out/shared.out", "cf/gen.out"]
# (no directory names here: the client rejects a directory given as a file, see
# api._check_no_directories and the classification in static())
CHAOS_SPECIAL = [".stepup/x.txt", "plan.py", "cf/nonexistent.txt"]
CHAOS_PATTERNS = ["cf/*.txt", "cf/**", "out/*", "c?/*", "cf/${*n}.txt", "cx/*.out", "*/", "cf/*/",
                  "**/*.out"]
CHAOS_CMDS = ["./ca.py", "./cb.py", "./cc.py"]


def _chaos_paths(draw, pool, lo, hi):
    # the client sends sets of paths: no duplicates within one argument
    return draw(st.lists(st.sampled_from(pool), min_size=lo, max_size=hi, unique=True))


@st.composite
def chaos_ops(draw, spec, in_step=False):
    """One request (wrapped in try with probability 3/4)."""
    srcs = sorted(set(spec["sources"]) | set(CHAOS_SOURCES))
    outs = sorted(declared_outputs(spec)) or ["out/none.out"]
    anyfile = srcs + outs + CHAOS_OUTS + CHAOS_SPECIAL
    kinds = ["static", "static", "tree", "step", "step", "step", "glob", "amend", "release", "hold",
             "cycle"]
    if in_step:
        kinds = ["amend", "amend", "static", "glob"]
    kind = draw(st.sampled_from(kinds))
    if kind == "static":
        op = ["static_raw", [], _chaos_paths(draw, anyfile, 1, 2), []]
        if draw(st.integers(0, 3)) == 0:
            op[3] = [draw(st.sampled_from(CHAOS_PATTERNS))]
    elif kind == "tree":
        op = ["static_raw", _chaos_paths(draw, CHAOS_DIRS + ["./", "/"], 1, 2),
              _chaos_paths(draw, anyfile, 0, 1), []]
    elif kind == "step":
        existing = [step_label(sd)[1] for sd in spec["steps"].values()]
        cmd = draw(st.sampled_from(CHAOS_CMDS + CHAOS_CMDS + existing[:2]))
        stepspec = {"cmd": cmd,
                    "inp": _chaos_paths(draw, anyfile, 0, 2),
                    "out": _chaos_paths(draw, CHAOS_OUTS + CHAOS_OUTS + outs + srcs, 0, 2),
                    "vol": _chaos_paths(draw, CHAOS_OUTS + outs, 0, 1),
                    "env": draw(st.sampled_from([[], [], ["VERIF_A"], ["HERE"], ["VERIF_A",
                                                                                  "VERIF_B"]])),
                    "workdir": draw(st.sampled_from([".", ".", "sub", "cf", "cx"])),
                    "need": "optional"}
        extra = draw(st.integers(0, 9))
        if extra == 0:
            stepspec["env_overrides"] = {"VERIF_A": "1"}
        elif extra == 1:
            # (quantities <= 0 are rejected by step() itself)
            stepspec["resources"] = {draw(st.sampled_from(["gpu", "", "lic"])):
                                     draw(st.sampled_from([1, 2]))}
        op = ["step", stepspec]
    elif kind == "cycle":
        # two (or three) steps whose inputs and outputs close a loop; the last one must be refused
        n = draw(st.integers(1, 3))
        ring = draw(st.permutations(CHAOS_OUTS))[:n]
        ops = []
        for j in range(n):
            stepspec = {"cmd": CHAOS_CMDS[j], "inp": [ring[j]], "out": [ring[(j + 1) % n]],
                        "vol": [], "env": [], "workdir": ".", "need": "optional"}
            if draw(st.integers(0, 3)) == 0 and j == n - 1:
                # close the loop with amend instead: only possible for the running plan itself
                ops.append(["try", ["amend", {"inp": [ring[j]], "out": [], "vol": []}]])
            else:
                ops.append(["try", ["step", stepspec]])
        op = ["seq", *ops]
    elif kind == "glob":
        subs = {"n": draw(st.sampled_from(["*", "[ab]", "?"]))} \
            if draw(st.booleans()) else {}
        pattern = draw(st.sampled_from(CHAOS_PATTERNS))
        if "${*n}" not in pattern:
            subs = {}
        op = ["glob", pattern, subs]
    elif kind == "amend":
        op = ["amend", {"inp": _chaos_paths(draw, anyfile, 0, 2),
                        "out": _chaos_paths(draw, CHAOS_OUTS + outs + srcs, 0, 1),
                        "vol": _chaos_paths(draw, CHAOS_OUTS + outs, 0, 1)}]
    else:
        op = [kind]
    if draw(st.integers(0, 3)) != 0:
        op = ["try", op]
    return op


def add_chaos(draw, spec, nmax=4):
    """Insert 1..nmax chaos requests at drawn positions of drawn plans (in place)."""
    spec["sources"].update({p: c for p, c in CHAOS_SOURCES.items() if p not in spec["sources"]})
    plans = sorted(active_plans(spec))
    descs = []
    for _ in range(draw(st.integers(1, nmax))):
        plan = spec["plans"][draw(st.sampled_from(plans))]
        op = draw(chaos_ops(spec))
        pos = draw(st.integers(0, len(plan["items"])))
        plan["items"].insert(pos, ["chaos", op])
        descs.append(op)
    return descs


def strip_chaos(spec):
    for plan in spec["plans"].values():
        plan["items"] = [it for it in plan["items"] if it[0] != "chaos"]


@st.composite
def chaos_histories(draw, max_steps=5, min_builds=1, max_builds=3, nmax=4):
    hist = draw(rich_histories(max_steps=max_steps, min_builds=min_builds,
                               max_builds=max_builds))
    for stage in hist["stages"]:
        strip_chaos(stage["spec"])
        if draw(st.integers(0, 4)) != 0:
            stage["chaos"] = add_chaos(draw, stage["spec"], nmax)
    return hist
