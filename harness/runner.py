"""Parent process of a check: spawns workers, merges results, writes evidence, prints the verdict.

Exit status: 0 = property held on everything explored (known findings are printed, not raised),
1 = at least one violation that known_findings.json does not list (VIOLATION line printed),
2 = harness error or inconclusive run (never a VIOLATION line).
"""

import argparse
import json
import os
import subprocess
import sys
import tempfile
import time

from .common import VERIF_DIR, fingerprint

NWORKERS_DEFAULT = int(os.environ.get("VERIF_WORKERS", "16"))


def load_known(prop):
    path = os.path.join(VERIF_DIR, "known_findings.json")
    if not os.path.exists(path):
        return []
    with open(path) as fh:
        data = json.load(fh)
    return [
        f
        for f in data.get("findings", [])
        if f["property"] == prop and f.get("status", "known") == "known"
    ]


def write_replay(prop, failure, tag="") -> str:
    d = os.path.join(os.environ.get("VERIF_REPLAY_DIR") or os.path.join(VERIF_DIR, "replays"), prop)
    os.makedirs(d, exist_ok=True)
    name = f"{tag}{failure['subcheck']}-{fingerprint([failure['signature'], failure['case']])}.json"
    path = os.path.join(d, name)
    with open(path, "w") as fh:
        json.dump(
            {
                "property": prop,
                "subcheck": failure["subcheck"],
                "signature": failure["signature"],
                "message": failure["message"],
                "details": failure.get("details"),
                "case": failure["case"],
            },
            fh,
            indent=1,
            sort_keys=True,
        )
    return os.path.relpath(path, VERIF_DIR)


def run(prop, tier, seed, nworkers, only=None):
    import importlib

    sys.path.insert(0, VERIF_DIR)
    mod = importlib.import_module(f"props.{prop.lower()}")
    t0 = time.time()
    outdir = tempfile.mkdtemp(prefix=f"verif-{prop}-out-")
    env = dict(os.environ)
    env.setdefault("PYTHONHASHSEED", "0")
    env["PYTHONPATH"] = VERIF_DIR + os.pathsep + env.get("PYTHONPATH", "")
    env.pop("STEPUP_ROOT", None)
    procs = []
    results = []
    errors = []
    nworkers = min(nworkers, getattr(mod, "MAX_WORKERS", nworkers))
    for w in range(nworkers):
        out = os.path.join(outdir, f"w{w}.json")
        cmd = [
            sys.executable, "-m", "harness.worker", "--prop", prop, "--tier", tier,
            "--seed", str(seed), "--worker", str(w), "--nworkers", str(nworkers), "--out", out,
        ]
        if only:
            cmd += ["--only", only]
        # the workers stop generating at 85% of the budget; the hard kill at 100% is the backstop
        cmd += ["--budget", str(0.85 * float(os.environ.get(
            "VERIF_TIMEOUT_S", "2400" if tier == "quick" else "3600")))]
        log = open(os.path.join(outdir, f"w{w}.log"), "w")
        procs.append((subprocess.Popen(cmd, cwd=VERIF_DIR, env=env, stdout=log, stderr=log), out, log))
    budget = float(os.environ.get("VERIF_TIMEOUT_S", "2400" if tier == "quick" else "3600"))
    stall = float(os.environ.get("VERIF_STALL_S", "420"))
    deadline = t0 + budget
    running = dict(enumerate(procs))
    while running:
        time.sleep(0.5)
        now = time.time()
        for w, (p, out, log) in list(running.items()):
            reason = None
            if p.poll() is None:
                hb = out + ".hb"
                last = os.path.getmtime(hb) if os.path.exists(hb) else t0
                if now > deadline:
                    reason = f"exceeded the time budget of {budget:.0f}s"
                elif now - last > stall:
                    reason = f"made no progress for {stall:.0f}s (a case does not terminate)"
                else:
                    continue
                # Inconclusive, never a violation: the worker is killed; what it had found and
                # counted up to its last checkpoint is kept.
                p.kill()
                p.wait()
                errors.append(f"worker {w} {reason} (inconclusive)")
            del running[w]
            log.close()
            path = out if os.path.exists(out) else out + ".partial"
            if os.path.exists(path):
                with open(path) as fh:
                    results.append(json.load(fh))
                if results[-1]["error"]:
                    errors.append(f"worker {w}: {results[-1]['error']}")
                    if results[-1].get("error_case"):
                        ec = results[-1]["error_case"]
                        path = write_replay(prop, {"subcheck": ec["subcheck"],
                                                   "signature": "harness-error",
                                                   "message": results[-1]["error"][:2000],
                                                   "case": ec["case"]}, tag="harness-error-")
                        errors.append(f"case kept for triage: {path}")
            elif reason is None:
                with open(log.name) as fh:
                    tail = fh.read()[-3000:]
                errors.append(f"worker {w} died (exit {p.returncode}) without result:\n{tail}")
    # Merge.
    merged = {}
    failures = []
    for r in results:
        failures.extend(r["failures"])
        for name, d in r["subchecks"].items():
            m = merged.setdefault(
                name,
                {"evaluations": 0, "events": {}, "nontrivial": set(), "samples": [],
                 "known_hits": {}, "muted_hits": {}, "extra": {}, "wall_s": 0.0},
            )
            m["evaluations"] += d["evaluations"]
            m["nontrivial"].update(d["nontrivial"])
            m["wall_s"] = max(m["wall_s"], d["wall_s"])
            if len(m["samples"]) < 4:
                m["samples"].extend(d["samples"][: 4 - len(m["samples"])])
            for key in ("events", "known_hits", "muted_hits", "extra"):
                for k, v in d[key].items():
                    m[key][k] = m[key].get(k, 0) + v
    import shutil

    shutil.rmtree(outdir, ignore_errors=True)

    ntimeouts = sum(m["extra"].get("case_timeouts", 0) for m in merged.values())
    if ntimeouts:
        errors.append(f"{ntimeouts} case(s) exceeded the per-case watchdog (inconclusive)")
    known = load_known(prop)
    known_hits = {}
    for m in merged.values():
        for k, v in m["known_hits"].items():
            known_hits[k] = known_hits.get(k, 0) + v
    # Distinct failures by signature.
    by_sig = {}
    for f in failures:
        by_sig.setdefault(f["signature"], f)
    replay_paths = []
    for sig, f in sorted(by_sig.items()):
        replay_paths.append((sig, write_replay(prop, f), f["message"]))

    wall = time.time() - t0
    evaluations = sum(m["evaluations"] for m in merged.values())
    nontrivial = sum(len(m["nontrivial"]) for m in merged.values())
    samples = []
    for name, m in merged.items():
        for s in m["samples"][:2]:
            samples.append({"subcheck": name, "case": s})
    evidence = {
        "property_id": prop,
        "tier": tier,
        "seed": seed,
        "level": getattr(mod, "LEVEL", "exploration"),
        "coverage": {
            "evaluations": evaluations,
            "distinct_nontrivial": nontrivial,
            "rule": getattr(mod, "RULE", ""),
            "samples": samples,
            "subchecks": {
                name: {
                    "evaluations": m["evaluations"],
                    "distinct_nontrivial": len(m["nontrivial"]),
                    "classes": dict(sorted(m["events"].items())),
                    "counters": dict(sorted(m["extra"].items())),
                    "known_finding_hits_excluded": m["known_hits"],
                    "muted_repeat_hits": m["muted_hits"],
                    "wall_s": round(m["wall_s"], 2),
                }
                for name, m in merged.items()
            },
            "workers": nworkers,
        },
        "assumptions": getattr(mod, "ASSUMPTIONS", []),
        "wall_s": round(wall, 2),
        "violations": len(by_sig),
        "harness_errors": errors[:5],
    }
    evdir = os.environ.get("VERIF_EVIDENCE_DIR") or os.path.join(VERIF_DIR, "evidence")
    os.makedirs(evdir, exist_ok=True)
    with open(os.path.join(evdir, f"{prop}.json"), "w") as fh:
        json.dump(evidence, fh, indent=1, sort_keys=True)
        fh.write("\n")

    for name, m in merged.items():
        print(
            f"[{prop}/{name}] cases={m['evaluations']} nontrivial={len(m['nontrivial'])} "
            f"wall={m['wall_s']:.1f}s classes={dict(sorted(m['events'].items()))}"
        )
    for f in known:
        n = known_hits.get(f["signature"], 0)
        print(f"KNOWN-FINDING: property={prop} {f['what']} [signature={f['signature']}; "
              f"reproduced and excluded {n} time(s) in this run]")
    for sig, path, msg in replay_paths:
        print(f"VIOLATION property={prop} replay={path}")
        print(f"  signature: {sig}")
        print(f"  {msg[:2000]}")
    if replay_paths:
        return 1
    if errors:
        for e in errors[:3]:
            print("HARNESS-ERROR:", e, file=sys.stderr)
        return 2
    print(f"OK property={prop} tier={tier} seed={seed} evaluations={evaluations} "
          f"nontrivial={nontrivial} wall={wall:.1f}s")
    return 0


def replay(prop, path):
    sys.path.insert(0, VERIF_DIR)
    from .worker import replay_case

    with open(path) as fh:
        data = json.load(fh)
    prop = data.get("property", prop)
    v = replay_case(prop, data["subcheck"], data["case"])
    if v is None:
        print(f"replay of {path}: property held")
        return 0
    known = {f["signature"] for f in load_known(prop)}
    if v.signature in known:
        print(f"KNOWN-FINDING: property={prop} signature={v.signature} {v.message[:500]}")
        return 0
    print(f"VIOLATION property={prop} replay={path}")
    print(f"  signature: {v.signature}")
    print(f"  {v.message[:4000]}")
    return 1


def main():
    parser = argparse.ArgumentParser()
    parser.add_argument("prop")
    parser.add_argument("--tier", default=os.environ.get("VERIF_TIER", "quick"),
                        choices=["quick", "thorough"])
    parser.add_argument("--seed", type=int, default=None)
    parser.add_argument("--workers", type=int, default=NWORKERS_DEFAULT)
    parser.add_argument("--replay", default=None)
    parser.add_argument("--only", default=None)
    args = parser.parse_args()
    seed = args.seed
    if seed is None:
        try:
            seed = int(os.environ.get("VERIF_SEED", "1"))
        except ValueError:
            seed = 1
    prop = args.prop.upper()
    if args.replay:
        code = replay(prop, args.replay)
    else:
        code = run(prop, args.tier, seed, args.workers, args.only)
    sys.stdout.flush()
    sys.stderr.flush()
    os._exit(code)


if __name__ == "__main__":
    main()
