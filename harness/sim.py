"""Engine E1 "SimStepUp": the real director (`serve()`) in-process with simulated step programs.

Everything between the RPC handler methods and SQLite is the code under test. The only
substituted piece is `stepup.core.executor.launch_command`, which here interprets the JSON
program stored in the step's script file instead of spawning a process. The harness owns the
schedule: every operation of a simulated step waits for its turn, granted by the pump from a
generated list of choices.
"""

import asyncio
import contextlib
import hashlib
import json
import os
import shlex
import shutil
import time
import traceback

from .common import HarnessError

SHEBANG = "#!/usr/bin/env python3"
SUBSTITUTION_POINTS = [
    ("stepup.core.executor", "launch_command"),
    ("stepup.core.director", "_wire_director"),
    ("stepup.core.director", "serve"),
    ("stepup.core.sqlite3", "DBSession"),
]


def check_substitution_points():
    import importlib

    for modname, attr in SUBSTITUTION_POINTS:
        mod = importlib.import_module(modname)
        if not hasattr(mod, attr):
            raise HarnessError(f"substitution point {modname}.{attr} is missing")


# ---------------------------------------------------------------------------------------------
# Recording reporter


class RecClient:
    """Duck-typed async RPC client that records `report` calls."""

    def __init__(self):
        self.events = []

    @property
    def call(self):
        return self

    def __getattr__(self, name):
        if name.startswith("__"):
            raise AttributeError(name)

        async def record(*args, **kwargs):
            if name == "report":
                tag, description = args[0], str(args[1])
                pages = args[2] if len(args) > 2 else []
                self.events.append((tag, description, [(t, b) for t, b in pages]))

        return record

    async def close(self):
        return None


# ---------------------------------------------------------------------------------------------
# File system snapshots


def sha(data: bytes) -> str:
    return hashlib.sha256(data).hexdigest()


def fs_snapshot(root=".", with_stat=True):
    """path -> dict(type, sha, inode, mtime_ns, mode) for everything under root except .stepup."""
    result = {}
    for dirpath, dirnames, filenames in os.walk(root):
        rel = os.path.relpath(dirpath, root)
        if rel == ".":
            rel = ""
            if ".stepup" in dirnames:
                dirnames.remove(".stepup")
        for d in dirnames:
            p = os.path.join(rel, d) if rel else d
            result[p + "/"] = {"type": "dir"}
        for f in filenames:
            p = os.path.join(rel, f) if rel else f
            full = os.path.join(root, p)
            try:
                st = os.lstat(full)
                with open(full, "rb") as fh:
                    digest = sha(fh.read())
            except OSError:
                continue
            entry = {"type": "file", "sha": digest}
            if with_stat:
                entry.update(inode=st.st_ino, mtime_ns=st.st_mtime_ns, mode=st.st_mode)
            result[p] = entry
    return result


def write_file(path, content: str, executable=False):
    parent = os.path.dirname(path)
    if parent:
        os.makedirs(parent, exist_ok=True)
    if os.path.isdir(path):
        shutil.rmtree(path)
    with open(path, "w") as fh:
        fh.write(content)
    if executable:
        os.chmod(path, 0o755)


def render_script(program) -> str:
    return SHEBANG + "\n" + json.dumps(program, sort_keys=True) + "\n"


# ---------------------------------------------------------------------------------------------
# Commit observer


class Observer:
    """Passive observer attached to the DBSession: counts commits, runs hooks, takes images."""

    def __init__(self):
        self.ncommit = 0
        self.before_hooks = []  # fn(con, ncommit)
        self.after_hooks = []  # fn(ncommit)
        self.rollback_hooks = []  # fn(con), right after a transaction was rolled back
        self.failures = []  # (kind, message)
        self.snap_at = None  # set of commit numbers, or "all"
        self.snap_dir = None
        self.snap_src = None
        self.snaps = []  # (ncommit, path)
        self.commit_tags = []

    def before_commit(self, con):
        for hook in self.before_hooks:
            try:
                hook(con, self.ncommit + 1)
            except Exception as exc:  # noqa: BLE001 - recorded, judged by the check
                self.failures.append(("observer-hook", f"{type(exc).__name__}: {exc}\n"
                                      f"{traceback.format_exc()}"))

    def after_rollback(self, con):
        for hook in self.rollback_hooks:
            try:
                hook(con)
            except Exception as exc:  # noqa: BLE001
                self.failures.append(("observer-hook", f"{type(exc).__name__}: {exc}\n"
                                      f"{traceback.format_exc()}"))

    def after_commit(self):
        self.ncommit += 1
        for hook in self.after_hooks:
            hook(self.ncommit)
        if self.snap_at is not None and (self.snap_at == "all" or self.ncommit in self.snap_at):
            self.take_image(f"c{self.ncommit}")

    def take_image(self, tag):
        dest = os.path.join(self.snap_dir, tag)
        shutil.copytree(self.snap_src, dest, symlinks=True,
                        ignore=shutil.ignore_patterns("director", "*.sock"))
        self.snaps.append((tag, dest))
        return dest


def make_dbsession_class():
    from stepup.core.sqlite3 import DBSession

    class VerifDBSession(DBSession):
        observer = None

        async def __aexit__(self, exc_type, exc, tb):
            obs = self.observer
            abort = None
            if exc is None and obs is not None:
                try:
                    con = self._require_transaction_con()
                    if con.in_transaction:
                        obs.before_commit(con)
                except RuntimeError:
                    pass
                except BaseException as stop:  # noqa: BLE001 - instrument.AbortBuild
                    abort = stop
            if abort is not None:
                # roll back and release the lock, then let the build die
                await super().__aexit__(type(abort), abort, abort.__traceback__)
                raise abort
            con = None
            if exc is not None and obs is not None and obs.rollback_hooks:
                try:
                    con = self._require_transaction_con()
                except RuntimeError:
                    con = None
            await super().__aexit__(exc_type, exc, tb)
            if exc is None and obs is not None:
                obs.after_commit()
            elif con is not None:
                # no await since the rollback: nobody else can have written in between
                obs.after_rollback(con)

    return VerifDBSession


# ---------------------------------------------------------------------------------------------
# Pump: the schedule


class Pump:
    """Grants turns to parked simulated steps according to a list of generated choices."""

    def __init__(self, choices, default_settle=2):
        self.choices = list(choices)
        self.pos = 0
        self.parked = {}
        self.wake = asyncio.Event()
        self.stopped = False
        self.handler = None
        self.db = None
        self.decisions = 0
        self.actions = {}  # decision index -> callable
        self.order = []  # log of granted keys
        self.default_settle = default_settle
        self.max_parked = 0
        self.tail = "first"  # who gets the turn once the choices are used up: first|last|rr

    def next_choice(self):
        if self.pos < len(self.choices):
            value = self.choices[self.pos]
        else:
            value = 0
        self.pos += 1
        return value

    async def turn(self, key):
        fut = asyncio.get_running_loop().create_future()
        if key in self.parked:
            raise HarnessError(f"step {key} parked twice")
        self.parked[key] = fut
        self.wake.set()
        await fut

    def _active(self):
        h = self.handler
        if h is None:
            return False
        if self.db is not None and self.db._held is not None:
            return True
        if h.builder.wake_job_loop.is_set() or len(h.builder.done_tasks) > 0:
            return True
        free_slot = len(h.builder.running_tasks) < h.builder.njob
        for job in h.builder.hash_queue.in_flight.values():
            # A queued hash job only makes progress when the job loop has a free slot.
            if job.started or free_slot:
                return True
        return any(getattr(job, "worker", None) is not None for job in h.executor.running.values())

    async def settle(self, mode):
        """0: no settling; 1: a few loop iterations; 2: until the director is idle."""
        if mode == 0:
            return
        if mode == 1:
            for _ in range(3):
                await asyncio.sleep(0)
            return
        idle = 0
        for _ in range(4000):
            await asyncio.sleep(0)
            if self._active():
                idle = 0
                await asyncio.sleep(0.0005)
            else:
                idle += 1
                if idle >= 4:
                    return

    async def run(self):
        while not self.stopped:
            if not self.parked:
                self.wake.clear()
                await self.wake.wait()
                continue
            c = self.next_choice()
            mode = self.default_settle if c % 4 != 3 else (c // 4) % 3
            await self.settle(mode)
            if self.stopped:
                break
            action = self.actions.pop(self.decisions, None)
            if action is not None:
                action()
                await self.settle(2)
            keys = sorted(self.parked)
            if not keys:
                continue
            self.max_parked = max(self.max_parked, len(keys))
            if self.pos > len(self.choices) and self.tail != "first":
                # generated choices are used up: fallback policy of this schedule
                key = keys[-1] if self.tail == "last" else keys[self.decisions % len(keys)]
            else:
                key = keys[(c // 16) % len(keys)]
            self.decisions += 1
            self.order.append(key)
            fut = self.parked.pop(key)
            if not fut.done():
                fut.set_result(None)
            await asyncio.sleep(0)

    def stop(self):
        self.stopped = True
        self.wake.set()
        for fut in self.parked.values():
            if not fut.done():
                fut.cancel()
        self.parked.clear()


# ---------------------------------------------------------------------------------------------
# Simulated steps


class StopProgram(Exception):
    def __init__(self, returncode, stderr=""):
        self.returncode = returncode
        self.stderr = stderr


class Session:
    """One `serve()` invocation on the project in the current working directory."""

    def __init__(self, choices=(), default_settle=2):
        self.pump = Pump(choices, default_settle)
        self.observer = Observer()
        self.reporter_client = RecClient()
        self.handler = None
        self.steplog = []
        self.clock = 0
        self.running = {}  # label -> dict(start, resources)
        self.rejections = []  # (label, op, exception class, message)
        self.internal_errors = []  # (label, op, exception class, message, traceback)
        self.commands_started = []
        self.result = None
        self.serve_error = None
        self.timed_out = False
        self.on_turn = None  # optional callback(session, label, opname) at every turn point
        self.hold_depth = {}
        self.double_runs = []
        self.record_inputs_at_start = False
        self.patches = []  # (object, attribute, replacement) applied for the time of run_build
        self.call_hooks = []  # objects with call_started/call_finished(ctx, opname[, outcome])

    # -- logging

    def tick(self):
        self.clock += 1
        return self.clock

    def log(self, **entry):
        entry["t"] = self.tick()
        self.steplog.append(entry)

    # -- the replacement for stepup.core.executor.launch_command

    async def launch(self, command, *, shell, env, cwd, mp_ctx, run):
        from stepup.core.outcome import ChildOutcome

        label = run.step.label
        job_i = int(env["STEPUP_JOB_I"])
        self.commands_started.append(label)
        info = {"start": self.tick(), "job": job_i}
        if label in self.running:
            # The same step is executing twice at the same time.
            self.double_runs.append((label, self.running[label]["job"], job_i))
        self.running[label] = info
        self.hold_depth[label] = 0
        inputs = None
        if self.record_inputs_at_start and self.handler is not None:
            # What the database says about the step's inputs at the moment its command starts.
            async with self.handler.db:
                inputs = [
                    [row[0], row[1], bool(row[2]), bool(row[3])]
                    for row in self.handler.db.execute(
                        "SELECT node.label, file.state, node.detached, "
                        "EXISTS (SELECT 1 FROM dynamic_dep WHERE dynamic_dep.i = dep.i) "
                        "FROM dependency AS dep JOIN node ON node.i = dep.source "
                        "JOIN file ON file.node = dep.source WHERE dep.sink = ?",
                        (run.step.i,))
                ]
        self.log(op="start", label=label, job=job_i, cwd=str(cwd),
                 running=sorted(self.running), env_root=env.get("ROOT"),
                 env_here=env.get("HERE"), need=env.get("STEPUP_STEP_NEED"), inputs=inputs)
        returncode, stderr = 0, ""
        try:
            program, args = self._load_program(command, cwd)
            ctx = {"label": label, "job": job_i, "env": env, "args": args, "reads": [],
                   "envs": [], "cwd": str(cwd), "matches": []}
            for op in program:
                await self._turn(f"{label}\x00{job_i}", op[0])
                await self._exec_op(ctx, op)
            await self._turn(f"{label}\x00{job_i}", "exit")
        except StopProgram as stop:
            returncode, stderr = stop.returncode, stop.stderr
        finally:
            if self.running.get(label) is info:
                self.running.pop(label, None)
            self.log(op="end", label=label, job=job_i, returncode=returncode,
                     running=sorted(self.running))
        return ChildOutcome(returncode, "", stderr)

    async def _turn(self, key, opname):
        if self.on_turn is not None:
            self.on_turn(self, key.split("\x00")[0], opname)
        await self.pump.turn(key)

    def _load_program(self, command, cwd):
        parts = shlex.split(command)
        script = os.path.normpath(os.path.join(str(cwd), parts[0]))
        if not os.path.isfile(script):
            raise StopProgram(127, f"script not found: {script}")
        with open(script) as fh:
            first = fh.readline().rstrip()
            body = fh.read()
        if first != SHEBANG:
            raise StopProgram(126, f"bad shebang in {script}")
        try:
            program = json.loads(body)
        except ValueError as exc:
            raise StopProgram(1, f"syntax error in {script}: {exc}") from exc
        return program, parts[1:]

    @staticmethod
    def _subst(value, args):
        if isinstance(value, str):
            for i, arg in enumerate(args, 1):
                value = value.replace(f"${i}", arg)
            return value
        if isinstance(value, list):
            return [Session._subst(v, args) for v in value]
        if isinstance(value, dict):
            return {k: Session._subst(v, args) for k, v in value.items()}
        return value

    async def _call(self, ctx, opname, coro):
        """Await a handler call the way a step would: usage errors end the program."""
        from stepup.core.exceptions import UsageError

        for hook in self.call_hooks:
            hook.call_started(ctx, opname)
        try:
            result = await coro
            for hook in self.call_hooks:
                hook.call_finished(ctx, opname, "accepted")
            return result
        except UsageError as exc:
            for hook in self.call_hooks:
                hook.call_finished(ctx, opname, "rejected")
            self.rejections.append((ctx["label"], opname, type(exc).__name__, str(exc)))
            self.log(op="rejected", label=ctx["label"], call=opname, cls=type(exc).__name__,
                     message=str(exc))
            raise StopProgram(1, f"{type(exc).__name__}: {exc}") from exc
        except (asyncio.CancelledError, StopProgram):
            raise
        except Exception as exc:  # noqa: BLE001 - an internal error of the director
            for hook in self.call_hooks:
                hook.call_finished(ctx, opname, "internal-error")
            self.internal_errors.append((ctx["label"], opname, type(exc).__name__, str(exc),
                                         traceback.format_exc()))
            self.log(op="internal_error", label=ctx["label"], call=opname,
                     cls=type(exc).__name__, message=str(exc))
            raise StopProgram(1, f"RPCError: {type(exc).__name__}: {exc}") from exc

    async def _exec_op(self, ctx, op):
        from stepup.core.nglob import NamedGlob, has_any_wildcards

        h = self.handler
        job = ctx["job"]
        label = ctx["label"]
        name = op[0]
        args = self._subst(op[1:], ctx["args"])
        if name == "static":
            trees, files, patterns = [], [], []
            for arg in args[0]:
                if has_any_wildcards(arg):
                    ng = NamedGlob(arg)
                    ng.glob()
                    matches = [str(p) for p in ng.files()]
                    patterns.append((arg, matches))
                    for m in matches:
                        (trees if m.endswith("/") else files).append(m.rstrip("/"))
                elif os.path.isdir(arg):
                    trees.append(arg.rstrip("/"))
                elif os.path.exists(arg):
                    files.append(arg)
                else:
                    raise StopProgram(1, f"PathError: Path does not exist: {arg}")
            self.log(op="static", label=label, trees=sorted(set(trees)), files=sorted(set(files)),
                     patterns=[p for p, _ in patterns], pattern_matches=dict(patterns))
            await self._call(ctx, "declare_static", h.declare_static(
                job, sorted(set(trees)), sorted(set(files)), patterns))
        elif name == "static_raw":
            # a request exactly as given (no client-side existence check or classification)
            trees, files = list(args[0]), list(args[1])
            patterns = []
            for pattern in args[2]:
                ng = NamedGlob(pattern)
                ng.glob()
                patterns.append((pattern, [str(p) for p in ng.files()]))
            self.log(op="static", label=label, trees=trees, files=files,
                     patterns=[p for p, _ in patterns], pattern_matches=dict(patterns), raw=True)
            await self._call(ctx, "declare_static", h.declare_static(job, trees, files, patterns))
        elif name == "seq":
            for sub in args:
                await self._exec_op(ctx, sub)
        elif name == "try":
            # the program survives a rejected request, like a script that catches the exception
            nrej = len(self.rejections)
            try:
                await self._exec_op(ctx, args[0])
            except StopProgram as stop:
                if len(self.rejections) == nrej or getattr(stop, "fatal", False):
                    raise
        elif name == "glob":
            pattern, subs = args[0], (args[1] if len(args) > 1 else {})
            ng = NamedGlob(pattern, dict(subs))
            ng.glob()
            matches = [str(p) for p in ng.files()]
            ctx["matches"] = [(dict(m.mapping), str(m.files) if not isinstance(m.files, list)
                               else [str(f) for f in m.files]) for m in ng.matches()] \
                if ng._used_names else [({}, m) for m in matches]
            self.log(op="glob", label=label, pattern=pattern, matches=matches)
            await self._call(ctx, "register_glob", h.register_glob(job, pattern, dict(subs),
                                                                    matches))
        elif name == "step":
            await self._define_step(ctx, args[0])
        elif name == "for_each":
            # one step per match of the preceding glob; ${name} placeholders in the template
            template = args[0]
            for mapping, _path in ctx["matches"]:
                spec = json.loads(json.dumps(template))
                for key, value in mapping.items():
                    spec = json.loads(json.dumps(spec).replace("${" + key + "}", value))
                await self._define_step(ctx, spec)
        elif name == "hold":
            self.hold_depth[label] += 1
            self.log(op="hold", label=label, depth=self.hold_depth[label])
            await self._call(ctx, "hold_dispatch", h.hold_dispatch(job))
        elif name == "release":
            self.hold_depth[label] -= 1
            self.log(op="release", label=label, depth=self.hold_depth[label])
            await self._call(ctx, "release_dispatch", h.release_dispatch(job))
        elif name == "read":
            path = args[0]
            try:
                with open(path, "rb") as fh:
                    digest = sha(fh.read())
            except OSError as exc:
                self.log(op="read_failed", label=label, path=path)
                raise StopProgram(1, f"cannot read {path}: {exc}") from exc
            ctx["reads"].append((path, digest))
            self.log(op="read", label=label, job=job, path=path, sha=digest)
        elif name == "peek":
            path = args[0]
            try:
                with open(path, "rb") as fh:
                    digest = sha(fh.read())
            except OSError:
                digest = None
            self.log(op="peek", label=label, job=job, path=path, sha=digest)
        elif name == "env":
            ctx["envs"].append((args[0], ctx["env"].get(args[0])))
        elif name in ("amend", "amend_swallow"):
            spec = args[0]
            self.log(op="amend", label=label, job=job, spec=spec)
            carry_on = await self._call(ctx, "amend_step", h.amend_step(
                job, list(spec.get("inp", [])), set(spec.get("env", [])),
                list(spec.get("out", [])), list(spec.get("vol", []))))
            self.log(op="amend_reply", label=label, job=job, carry_on=carry_on)
            if carry_on is False and name == "amend":
                # api.amend() raises InputNotFoundError here; generated programs never carry on
                # after it (the one scenario that does is C10's "swallowed_amend")
                stop = StopProgram(1, "InputNotFoundError")
                stop.fatal = True
                raise stop
        elif name in ("write", "write_partial"):
            path = args[0]
            if name == "write_partial":
                content = "PARTIAL " + path + "\n"
            else:
                content = self.output_content(label, ctx["reads"], ctx["envs"], path)
            parent = os.path.dirname(path)
            if parent and not os.path.isdir(parent):
                self.log(op="write_failed", label=label, path=path)
                raise StopProgram(1, f"directory does not exist: {parent}")
            if os.path.isdir(path):
                raise StopProgram(1, f"is a directory: {path}")
            with open(path, "w") as fh:
                fh.write(content)
            self.log(op=name, label=label, job=job, path=path, sha=sha(content.encode()))
        elif name == "fail":
            raise StopProgram(int(args[0]) if args else 1, "step failed on purpose")
        elif name == "fail_if":
            path, token = args[0], args[1]
            try:
                with open(path) as fh:
                    if token in fh.read():
                        raise StopProgram(1, f"token {token} in {path}")
            except OSError:
                pass
        elif name == "sleep":
            for _ in range(int(args[0])):
                await self._turn(f"{label}\x00{job}", "sleep")
        else:
            raise HarnessError(f"unknown program operation {name}")

    async def _define_step(self, ctx, spec):
        from stepup.core.enums import Need

        need = {"optional": Need.OPTIONAL, "default": Need.DEFAULT, "plan": Need.PLAN}[
            spec.get("need", "default")]
        self.log(op="define", label=ctx["label"], cmd=spec["cmd"], workdir=spec.get("workdir", "."),
                 hold=self.hold_depth.get(ctx["label"], 0), spec=spec)
        await self._call(ctx, "define_step", self.handler.define_step(
            ctx["job"], spec["cmd"], list(spec.get("inp", [])), list(spec.get("env", [])),
            list(spec.get("out", [])), list(spec.get("vol", [])), spec.get("workdir", "."),
            need.value, dict(spec.get("resources", {})), False,
            spec.get("env_overrides") or None, None))

    @staticmethod
    def output_content(label, reads, envs, path):
        """The pure function every simulated work step computes for each file it writes."""
        payload = json.dumps([label, sorted(reads), sorted((n, v) for n, v in envs), path],
                             sort_keys=True)
        return "OUT " + sha(payload.encode()) + "\n"


# ---------------------------------------------------------------------------------------------
# Running a build


class BuildResult:
    def __init__(self):
        self.returncode = None
        self.events = []
        self.steplog = []
        self.rejections = []
        self.internal_errors = []
        self.graph = None
        self.tables = None
        self.ncommit = 0
        self.serve_error = None
        self.timed_out = False
        self.observer_failures = []
        self.snaps = []
        self.commands = []
        self.pump_order = []
        self.max_parked = 0
        self.to_be_deleted_left = None
        self.draining = None
        self.end_report = None

    def tags(self, tag):
        return [d for t, d, _ in self.events if t == tag]


def end_of_build_facts(workflow):
    """What the end-of-build report is computed from, re-evaluated on the final database
    (inside the caller's transaction, on the director's own connection with its temp tables)."""
    import attrs as _attrs

    from stepup.core.pending import _analyze_pending

    facts = {}
    summary, totals = _analyze_pending(workflow)
    facts["pending_summary"] = _attrs.asdict(summary)
    facts["attributed_totals"] = {int(k): int(v) for k, v in totals.items()}
    violations = workflow.find_glob_violations()
    facts["glob_errors"] = [(v.step_label, v.pattern, v.path) for v in violations if v.is_error]
    facts["glob_warnings"] = [(v.step_label, v.pattern, v.path) for v in violations
                              if not v.is_error]
    facts["missing_targets"] = sorted(str(t) for t in workflow.targets
                                      if not workflow.is_regular_output(t))
    facts["missing_target_dirs"] = sorted(str(t) for t in workflow.target_dirs
                                          if not workflow.has_regular_output_under(t))
    facts["threshold"] = workflow.need_threshold.value
    return facts


TABLES = ["node", "dependency", "file", "step", "step_hash", "nglob", "dynamic_dep", "env_var",
          "step_resource", "step_outcome"]


def dump_tables(con):
    result = {}
    for table in TABLES:
        cur = con.execute(f"SELECT * FROM {table}")
        cols = [c[0] for c in cur.description]
        result[table] = [dict(zip(cols, row)) for row in cur.fetchall()]
    return result


def canonical_graph(text, drop_detached=False):
    """Split format_str() output into blocks keyed by node key and sort them."""
    blocks = {}
    for block in text.split("\n\n"):
        block = block.strip("\n")
        if not block.strip():
            continue
        lines = block.split("\n")
        key = lines[0]
        if drop_detached and key.startswith("("):
            continue
        head = [ln for ln in lines[1:] if " = " in ln and not ln.lstrip().startswith(
            ("creator ", "source ", "product ", "sink "))]
        rels = sorted(ln for ln in lines[1:] if ln not in head)
        blocks[key] = "\n".join([key, *head, *rels])
    return "\n\n".join(blocks[k] for k in sorted(blocks))


async def run_build(config_kwargs=None, *, choices=(), default_settle=2, observer_setup=None,
                    session_setup=None, timeout=60.0, watch_script=None, env=None):
    """Run one `serve()` in the current working directory (the project root).

    `watch_script(session, handler)`: coroutine run while the director is in watch mode
    (requires do_watch=True); it is responsible for calling `handler.shutdown()`.
    """
    import stepup.core.director as director
    import stepup.core.executor as executor_mod
    from path import Path
    from stepup.core.constants import GRAPH_DB
    from stepup.core.director import ServeConfig
    from stepup.core.reporter import ReporterClient

    check_substitution_points()
    config_kwargs = dict(config_kwargs or {})
    config_kwargs.setdefault("use_duration", False)
    config = ServeConfig(**config_kwargs)
    session = Session(choices, default_settle)
    if session_setup is not None:
        session_setup(session)
    result = BuildResult()
    os.makedirs(".stepup", exist_ok=True)
    socket_path = Path(os.path.abspath(".stepup/director"))
    if os.path.exists(socket_path):
        os.remove(socket_path)
    cls = make_dbsession_class()
    saved_env = {}
    for name, value in (env or {}).items():
        saved_env[name] = os.environ.get(name)
        if value is None:
            os.environ.pop(name, None)
        else:
            os.environ[name] = value
    orig_launch = executor_mod.launch_command
    orig_wire = director._wire_director

    async def wire(**kwargs):
        handler = await orig_wire(**kwargs)
        session.handler = handler
        session.pump.handler = handler
        return handler

    executor_mod.launch_command = session.launch
    director._wire_director = wire
    applied = []
    for obj, attr, new in session.patches:
        applied.append((obj, attr, getattr(obj, attr)))
        setattr(obj, attr, new)
    pump_task = None
    try:
        with cls.open(GRAPH_DB) as db:
            db.observer = session.observer
            session.pump.db = db
            session.observer.snap_src = os.getcwd()
            if observer_setup is not None:
                observer_setup(session.observer)
            pump_task = asyncio.create_task(session.pump.run())
            reporter = ReporterClient(session.reporter_client)
            serve_task = asyncio.create_task(director.serve(
                config, director_socket_path=socket_path, reporter=reporter, db=db,
                handle_signals=False))
            watch_task = None
            if watch_script is not None:
                async def watch_wrapper():
                    while session.handler is None:
                        await asyncio.sleep(0.001)
                    await watch_script(session, session.handler)
                watch_task = asyncio.create_task(watch_wrapper())
            try:
                done, pending = await asyncio.wait({serve_task}, timeout=timeout)
                if serve_task in pending:
                    result.timed_out = True
                    if session.handler is not None:
                        async with db:
                            con = db._require_transaction_con()
                            result.tables = dump_tables(con)
                            result.graph = session.handler.workflow.format_str()
                    serve_task.cancel()
                    with contextlib.suppress(BaseException):
                        await serve_task
                else:
                    try:
                        serve_result = serve_task.result()
                        result.returncode = serve_result.returncode
                    except BaseException as exc:  # noqa: BLE001
                        result.serve_error = (type(exc).__name__, str(exc),
                                              "".join(traceback.format_exception(exc)))
            finally:
                if watch_task is not None:
                    if not watch_task.done():
                        watch_task.cancel()
                    with contextlib.suppress(BaseException):
                        await watch_task
                session.pump.stop()
                if pump_task is not None:
                    with contextlib.suppress(BaseException):
                        await pump_task
            if session.handler is not None and not result.timed_out and db._held is None:
                try:
                    async with db:
                        con = db._require_transaction_con()
                        result.tables = dump_tables(con)
                        result.graph = session.handler.workflow.format_str()
                        result.to_be_deleted_left = dict(session.handler.workflow.to_be_deleted)
                        result.draining = bool(session.handler.scheduler.draining)
                        result.end_report = end_of_build_facts(session.handler.workflow)
                except Exception as exc:  # noqa: BLE001
                    result.serve_error = result.serve_error or (
                        type(exc).__name__, str(exc), traceback.format_exc())
    except BaseException as exc:  # noqa: BLE001
        if result.serve_error is None:
            result.serve_error = (type(exc).__name__, str(exc), traceback.format_exc())
    finally:
        executor_mod.launch_command = orig_launch
        director._wire_director = orig_wire
        for obj, attr, old in reversed(applied):
            setattr(obj, attr, old)
        for name, value in saved_env.items():
            if value is None:
                os.environ.pop(name, None)
            else:
                os.environ[name] = value
        with contextlib.suppress(OSError):
            os.remove(socket_path)
    result.events = session.reporter_client.events
    result.steplog = session.steplog
    result.rejections = session.rejections
    result.internal_errors = session.internal_errors
    result.ncommit = session.observer.ncommit
    result.observer_failures = session.observer.failures
    result.snaps = session.observer.snaps
    result.commands = session.commands_started
    result.pump_order = session.pump.order
    result.max_parked = session.pump.max_parked
    result.double_runs = session.double_runs
    result.session = session
    return result
