"""C05  A build killed at any point is completed correctly after restart.

Engine E1, fault enumeration. A two-stage history is generated; during the second build a crash
image (copy of the whole project directory including graph.db, -wal and -shm) is taken after
EVERY committed transaction (startup, build, cleanup) and at turn points of running simulated
steps (between two of their file-system actions). Every image is then restarted with the real
`serve()` under STEPUP_DEBUG=1 and built to completion, and compared with the uninterrupted run.
"""

import os
import shutil
import sqlite3

from hypothesis import strategies as st

from harness import history as H
from harness import specgen
from harness.common import SubCheck, Violation
from harness.sim import fs_snapshot, run_build
from props.c01 import check_serve_health

PROPERTY = "C05"
LEVEL = "fault_enumeration"
RULE = (
    "Hypothesis draws a spec and one edit stage (as C01, incl. dropped steps and renamed outputs "
    "so that the second build has a cleanup phase); the second build is run once with a crash "
    "image after every commit (typically 40-120) and at every k-th turn point of running steps "
    "(half-written outputs included). Each image is restarted and built to completion: no "
    "ConsistencyError/IntegrityError/ERROR report; return-code class, every non-user file on disk "
    "and the projected active graph equal the uninterrupted run; a step that was RUNNING in the "
    "image never ends SUCCEEDED without a START event. An evaluation is one restarted image. "
    "Non-trivial = the image holds a RUNNING/CHECKING step or an UNCONFIRMED file, or was taken "
    "after the job loop ended (cleanup window); distinct by (history, crash point)."
)
ASSUMPTIONS = [
    "A copy of the directory taken between two SQLite commits models kill -9 of the director "
    "and its steps (WAL recovery discards an uncommitted tail); power loss with synchronous=OFF "
    "is out of scope, as sqlite3.connect() documents.",
    "Simulated steps die with the director (no orphan process keeps writing).",
]

MAX_IMAGES = int(os.environ.get("VERIF_C05_MAX_IMAGES", "70"))


@st.composite
def _cases(draw):
    hist = draw(specgen.histories(max_steps=5, min_builds=2, max_builds=2))
    # make sure the second build has something to clean up or rerun, often
    spec = hist["stages"][1]["spec"]
    names = [n for n in specgen.active_steps(spec) if spec["steps"][n]["out"]]
    if names and draw(st.booleans()):
        n = draw(st.sampled_from(names))
        kind = draw(st.sampled_from(["drop", "rename", "optional"]))
        if kind == "drop":
            for plan in spec["plans"].values():
                if ["step", n] in plan["items"]:
                    plan["items"].remove(["step", n])
        elif kind == "rename":
            sd = spec["steps"][n]
            old = sd["out"][0]
            sd["out"][0] = old.replace(".out", "y.out")
            for other in spec["steps"].values():
                other["inp"] = [sd["out"][0] if q == old else q for q in other["inp"]]
                other["amend_inp"] = [sd["out"][0] if q == old else q for q in other["amend_inp"]]
        else:
            spec["steps"][n]["need"] = "optional"
            spec["steps"][n]["amend_out"] = []
        hist["stages"][1]["edit"].append([f"extra_{kind}", n])
    # A plan that is rerun while one of its steps is already running again: the plan idles first
    # (so the job loop dispatches the step, whose script changed, under its running creator) and
    # then re-declares it, which detaches the step while it is RUNNING.
    plans = [p for p in specgen.active_plans(spec)
             if any(it[0] == "step" for it in spec["plans"][p]["items"])]
    if plans and draw(st.integers(0, 2)) == 0:
        p = draw(st.sampled_from(plans))
        kids = [it[1] for it in spec["plans"][p]["items"] if it[0] == "step"]
        kid = draw(st.sampled_from(kids))
        spec["plans"][p]["items"].insert(0, ["pause"])
        if draw(st.booleans()):
            spec["plans"][p]["items"].insert(0, ["pause"])
        spec["steps"][kid]["variant"] = spec["steps"][kid].get("variant", 0) + 1
        hist["stages"][1]["build"]["njob"] = draw(st.integers(2, 4))
        hist["stages"][1]["edit"].append(["extra_rerun_running", p, kid])
    # A plan that is deferred while one of its steps is running: it defines a step, idles, then
    # announces an input that another plan's step has not built yet. When that input appears the
    # plan is dispatched again and its reset detaches the step, which may still be RUNNING.
    # (a sub-plan: the producer of the late input is defined by the root plan, and a plan that
    # waits for a product of its own can never finish)
    plans = [p for p in specgen.active_plans(spec) if p != "plan.py"
             and any(it[0] == "step" for it in spec["plans"][p]["items"])]
    if plans and draw(st.integers(0, 1)) == 0:
        p = draw(st.sampled_from(plans))
        for stage in hist["stages"][1:]:
            # only the second build: the plan changed, so it runs again, and the late input is new
            sp = stage["spec"]
            if p not in sp["plans"]:
                continue
            sp["steps"]["late"] = {
                "script": "late.py", "args": [], "workdir": ".", "inp": sorted(sp["sources"])[:1],
                "out": ["gen/late.out"], "vol": [], "env": [], "need": "default",
                "resources": {}, "amend_inp": [], "amend_out": [], "read_first": False,
                "fail": None, "partial": False, "variant": 0}
            root = sp["plans"]["plan.py"]["items"]
            if ["step", "late"] not in root:
                root.append(["step", "late"])
            # a step of the deferring plan that takes many turns (one per read)
            srcs = sorted(sp["sources"])
            sp["steps"]["slowkid"] = dict(sp["steps"]["late"], script="slowkid.py",
                                          inp=(srcs * 3)[:6], out=["gen/slowkid.out"])
            sp["steps"]["slowkid"]["workdir"] = "."
            items = [it for it in sp["plans"][p]["items"]
                     if it[0] != "chaos" and it != ["step", "slowkid"]]
            items[0:0] = [["step", "slowkid"]] + [["pause"]] * draw(st.integers(1, 2)) + [
                ["chaos", ["amend", {"inp": ["gen/late.out"]}]]]
            sp["plans"][p]["items"] = items
        for stage in hist["stages"]:
            stage["build"]["njob"] = draw(st.integers(3, 4))
        hist["stages"][1]["edit"].append(["extra_deferred_plan", p])
    for stage in hist["stages"]:
        stage["build"]["do_clean"] = True
        for sd in stage["spec"]["steps"].values():
            sd["fail"] = None
    hist["turn_stride"] = draw(st.integers(1, 3))
    hist["offset"] = draw(st.integers(0, 2))
    return hist


def image_facts(image_dir):
    """States found in the image's database (as a restart would find them)."""
    db = os.path.join(image_dir, ".stepup", "graph.db")
    facts = {"running": [], "checking": [], "unconfirmed": 0, "nodes": {}}
    if not os.path.exists(db):
        return facts
    con = sqlite3.connect(db)
    try:
        try:
            for label, state, detached in con.execute(
                    "SELECT node.label, step.state, node.detached FROM step JOIN node "
                    "ON node.i = step.node"):
                if state == 22:
                    facts["running"].append(label)
                    if detached:
                        facts["running_detached"] = facts.get("running_detached", 0) + 1
                elif state == 25:
                    facts["checking"].append(label)
            facts["unconfirmed"] = con.execute(
                "SELECT count(*) FROM file WHERE state = 12").fetchone()[0]
            facts["nodes"] = {r[0]: (r[1], r[2] is not None) for r in con.execute(
                "SELECT node.label, file.state, file.hash FROM node JOIN file "
                "ON file.node = node.i")}
        except sqlite3.OperationalError:
            pass  # image taken before the schema exists
    finally:
        con.close()
    return facts


def non_user_files(snapshot, user_files):
    return {p: e["sha"] for p, e in snapshot.items()
            if e["type"] == "file" and p not in user_files}


async def check_case(case, rec, ctx):
    d = ctx.scratch.fresh("proj")
    images_root = ctx.scratch.fresh("images")
    os.chdir(d)
    try:
        ledger = H.Ledger()
        stage0, stage1 = case["stages"]
        r0, user_files = await H.run_stage(stage0["spec"], stage0["build"], ledger, set())
        check_serve_health(PROPERTY, r0, 0)
        turn_counter = {"n": 0}

        def observer_setup(obs):
            obs.snap_at = "all"
            obs.snap_dir = images_root

        def session_setup(session):
            def on_turn(sess, label, opname):
                turn_counter["n"] += 1
                if (turn_counter["n"] + case["offset"]) % case["turn_stride"] == 0:
                    sess.observer.take_image(f"t{turn_counter['n']}-{opname}")
            session.on_turn = on_turn

        r1, user_files = await H.run_stage(stage1["spec"], stage1["build"], ledger, user_files,
                                           observer_setup=observer_setup,
                                           session_setup=session_setup)
        check_serve_health(PROPERTY, r1, 1)
        ref_rc = H.returncode_class(r1.result.returncode)
        rec.event("reference:" + ref_rc)
        from props.c01 import _stale_claim_rejections, _succeeded_with_detached_input
        case["_ref_orphan"] = bool(_succeeded_with_detached_input(r1.result.tables))
        case["_ref_stale_claim"] = bool(_stale_claim_rejections(r1))
        ref_files = non_user_files(r1.after, user_files)
        ref_graph = H.project_graph(r1.result.tables) + H.outcome_facts(r1.result.tables)
        # When did the job loop end? (cleanup window = images after the "Ran N job(s)" report)
        images = list(r1.result.snaps)
        if len(images) > MAX_IMAGES:
            # keep the first and last thirds dense (startup and cleanup), thin out the middle
            keep = set(range(0, 15)) | set(range(len(images) - 25, len(images)))
            step = max(1, (len(images) - 40) // (MAX_IMAGES - 40))
            keep |= set(range(15, len(images) - 25, step))
            images = [im for k, im in enumerate(images) if k in keep]
        rec.count("images", len(images))
        for tag, image_dir in images:
            try:
                await check_image(case, tag, image_dir, stage1, ref_rc, ref_files, ref_graph,
                                  user_files, rec)
            except Violation as v:
                # A recorded finding is counted and excluded so that the other crash points of
                # this build are still explored; anything else ends the case.
                if v.signature not in ctx.known:
                    raise
                rec.known_hits[v.signature] = rec.known_hits.get(v.signature, 0) + 1
            finally:
                os.chdir(ctx.scratch.root)
                shutil.rmtree(image_dir, ignore_errors=True)
    finally:
        os.chdir(ctx.scratch.root)
        shutil.rmtree(d, ignore_errors=True)
        shutil.rmtree(images_root, ignore_errors=True)


async def check_image(case, tag, image_dir, stage1, ref_rc, ref_files, ref_graph, user_files, rec):
    facts = image_facts(image_dir)
    os.chdir(image_dir)
    for junk in (".stepup/director",):
        if os.path.exists(junk):
            os.remove(junk)
    image_snapshot = fs_snapshot(".")
    build = dict(stage1["build"])
    build["choices"] = ()
    result = await run_build(H.serve_config(build), choices=(), env=H.build_env(stage1["spec"]))
    rec.evaluations += 1
    stage = H.StageRecord()
    stage.result, stage.spec, stage.config = result, stage1["spec"], build
    where = f"crash image {tag}"
    check_serve_health(PROPERTY, stage, where)
    for t, desc, pages in result.events:
        if t == "ERROR":
            raise Violation(f"{PROPERTY}/error-report-after-restart",
                            f"{where}: {desc} {str(pages)[:600]}")
    if result.observer_failures:
        raise Violation(f"{PROPERTY}/observer", f"{where}: {result.observer_failures[:1]}")
    rc = H.returncode_class(result.returncode)
    if rc != ref_rc:
        sig = f"{PROPERTY}/returncode-differs-after-restart"
        if case.get("_ref_orphan") and ref_rc == "OK" and rc == "PENDING":
            # Root-cause refinement (the C01 finding seen from here): the uninterrupted build
            # keeps a consumer SUCCEEDED whose producer was dropped from the plan; the restarted
            # build rescans and finds it pending, which is what a build from scratch says too.
            sig = (f"{PROPERTY}/uninterrupted-build-keeps-succeeded-consumer-of-dropped-producer-"
                   "restart-does-not")
        if case.get("_ref_stale_claim") and "FAILED" in ref_rc and "FAILED" not in rc:
            # Root-cause refinement (the C01 finding seen from here): the uninterrupted build
            # rejects a declaration because of the claim of a step that no plan defines any
            # more; after the crash the interrupted plans are reset, their stale products are
            # detached, and the restarted build accepts the declaration, as a scratch build does.
            sig = (f"{PROPERTY}/uninterrupted-build-rejects-declaration-over-stale-claim-restart-"
                   "does-not")
        raise Violation(
            sig,
            f"{where}: restarted build ended {rc}, the uninterrupted one {ref_rc}; "
            f"edits {[s['edit'] for s in case['stages']]}",
        )
    interesting = bool(facts["running"] or facts["checking"] or facts["unconfirmed"])
    # No output of an interrupted step is treated as up to date.
    if result.tables is not None:
        sstates = H.step_states(result.tables)
        started = set(result.commands)
        for label in facts["running"]:
            if label in sstates and sstates[label][0] == 23 and not sstates[label][1] \
                    and label not in started:
                raise Violation(
                    f"{PROPERTY}/interrupted-step-treated-as-done",
                    f"{where}: {label!r} was RUNNING in the image and is SUCCEEDED after the "
                    "restart without having been executed again",
                )
    if ref_rc == "OK":
        after = fs_snapshot(".")
        files = non_user_files(after, user_files)
        if files != ref_files:
            extra = sorted(set(files) - set(ref_files))
            missing = sorted(set(ref_files) - set(files))
            differ = sorted(p for p in files if p in ref_files and files[p] != ref_files[p])
            sig = f"{PROPERTY}/files-differ-after-restart"
            def forgotten(p):
                # on disk in the image, while the image's database no longer remembers it as a
                # deletable file: no node at all, or a node without hash that is not BUILT/OUTDATED
                if p not in image_snapshot:
                    return False
                node = facts["nodes"].get(p)
                return node is None or node[0] not in (16, 17)

            if extra and not missing and not differ and all(forgotten(p) for p in extra):
                # Root-cause refinement: the crash fell between the transaction that cleaned the
                # database (delete_detached / revert_optional_steps) and the removal of the
                # files, and the list of files to remove only lives in memory.
                sig = (f"{PROPERTY}/file-left-behind-after-crash-between-database-cleanup-and-"
                       "file-removal")
            raise Violation(
                sig,
                f"{where}: after restart and completion, left behind {extra}, missing {missing}, "
                f"different content {differ}; edits {[s['edit'] for s in case['stages']]}",
            )
        graph = H.project_graph(result.tables) + H.outcome_facts(result.tables)
        if graph != ref_graph:
            raise Violation(
                f"{PROPERTY}/graph-differs-after-restart",
                f"{where}: edits {[s['edit'] for s in case['stages']]}\n"
                + H.diff_facts(ref_graph, graph, "uninterrupted", "restarted"),
            )
    cleanup_window = tag.startswith("c") and _after_job_loop(tag, case)
    if interesting or cleanup_window or tag.startswith("t"):
        rec.mark_nontrivial([case["stages"][1]["spec"], tag],
                            sample={"edits": [s["edit"] for s in case["stages"]], "image": tag,
                                    "running_in_image": facts["running"][:4],
                                    "checking_in_image": facts["checking"][:4],
                                    "unconfirmed_files": facts["unconfirmed"]})
    rec.event("image:" + ("turn" if tag.startswith("t") else "commit"))
    if facts["running"]:
        rec.event("image:has-running-step")
    if facts.get("running_detached"):
        rec.event("image:has-running-detached-step")


def _after_job_loop(tag, case):
    return True


def subchecks(tier):
    big = tier == "thorough"
    return [SubCheck("crash_images", check_case, strategy=_cases,
                     examples=8_000 if big else 400, shrink=big)]


MANIFEST = {
    "engine": "E1-SimStepUp",
    "technique": "fault injection by enumeration: a crash image after every committed transaction "
                 "and at turn points of running steps of generated builds; each image restarted "
                 "with the real director and compared with the uninterrupted run "
                 "(differential oracle)",
    "level_text": "Fault enumeration: exhaustive over commit points of each generated build "
                  "(thinned only in the middle of very long builds), sampled over projects and "
                  "edit histories; thousands of restarts per quick run.",
    "level_note": "directory copy between commits models kill -9 (WAL); simulated steps die "
                  "with the director; power loss out of scope",
}
