"""C13  Change detection by hashes is sound.

Sub-checks:
- digest_pairs: two step configurations (base + structured perturbations, or two draws from a tiny
  pool, or one configuration with permuted insertion order) -> canonical equality <=> digest
  equality, for the input digest and for the output digest.
- file_refresh: a sequence of file-system operations on files in a scratch directory; after each,
  `FileHash.refreshed` must report a change whenever (content|size|mode changed) and
  (mtime|size|inode|mode differs), must carry the right digest/size/mode, and must report
  equality when nothing changed; `compute_inp_hashes` / `compute_out_hashes` agree.
- roundtrip: FileHash / StepHash survive to_json / from_json field by field.
"""

import hashlib
import os
import threading

from hypothesis import strategies as st

from harness.common import SubCheck, Violation

PROPERTY = "C13"
LEVEL = "exploration"
RULE = (
    "digest_pairs: Hypothesis draws a base step configuration (command, workdir, shell flag, map "
    "path->(digest 32B or b'u', mode, size), env map name->value|None, override map) and derives "
    "the second one by 0-3 structured perturbations (move an item between sections, None<->''<->"
    "missing, swap key/value, shift a character across a word boundary, section keywords as "
    "names, swap size and mode, flip shell, permute insertion order) or draws both from a tiny "
    "pool. Non-trivial = the two configurations differ in exactly the perturbed ingredients or "
    "are equal up to insertion order; distinct by hash of the canonical pair. "
    "file_refresh: op sequences (rewrite same size, rewrite other size, chmod, utime back, replace "
    "by rename, delete, recreate) on real files; non-trivial = a step where content/mode changed "
    "AND the stat tuple differs, or a stat-restoring rewrite. roundtrip: non-trivial = explained "
    "hash with non-empty maps."
)
ASSUMPTIONS = [
    "SHA-256 collisions do not occur: digest equality is taken as equality of the hashed byte "
    "stream.",
    "Words are NUL-free text without lone surrogates, as the property statement says.",
    "File system of the scratch directory reports st_ino, st_mtime and st_size faithfully.",
]

# ---------------------------------------------------------------------------------------------
# digest pairs

_TEXT = st.text(
    alphabet=st.one_of(
        st.sampled_from("ab/._ #=w01-éß\x01\x02"),
        st.characters(exclude_characters="\x00", exclude_categories=("Cs",)),
    ),
    max_size=6,
)
_KEYWORDS = ["__shell__", "__inp_paths__", "__env_vars__", "__env_overrides__", "u", ""]
_NAME = st.one_of(_TEXT, st.sampled_from(_KEYWORDS), st.sampled_from(["a", "b", "ab", "A"]))
_DIGEST = st.one_of(
    st.just(b"u"),
    st.sampled_from([bytes(32), bytes([1]) * 32, bytes(range(32))]),
    st.binary(min_size=32, max_size=32),
)
_MODE = st.one_of(st.sampled_from([0, 0o100644, 0o100755, 1, 256]), st.integers(0, 2**32 - 1))
_SIZE = st.one_of(st.sampled_from([0, 1, 256, 0o100644]), st.integers(0, 2**40))
_FH = st.tuples(_DIGEST, _MODE, _SIZE).map(list)
_WORKDIR = st.sampled_from([".", "sub/", "a/", "a/b/", "ab/", "../x/"])


def _cmd():
    return _NAME.filter(lambda s: "  # wd=" not in s)


_CONFIG = st.fixed_dictionaries(
    {
        "cmd": _cmd(),
        "wd": _WORKDIR,
        "shell": st.booleans(),
        "inp": st.lists(st.tuples(_NAME, _FH).map(list), max_size=3, unique_by=lambda kv: kv[0]),
        "env": st.lists(
            st.tuples(_NAME, st.one_of(st.none(), _NAME)).map(list),
            max_size=3,
            unique_by=lambda kv: kv[0],
        ),
        "ov": st.lists(st.tuples(_NAME, _NAME).map(list), max_size=3, unique_by=lambda kv: kv[0]),
    }
)

_PERTURBATIONS = [
    "flip_shell", "env_to_ov", "ov_to_env", "none_to_empty", "empty_to_none", "drop_env",
    "swap_kv_env", "swap_kv_ov", "shift_cmd_inp", "shift_inp_inp", "swap_mode_size",
    "inp_to_env", "digest_to_unknown", "rename_keyword", "change_wd", "change_char",
    "permute", "split_path", "cmd_wd_fold", "shift_name_value",
]


def _dedupe(items):
    seen = {}
    for k, v in items:
        seen[k] = v
    return [[k, v] for k, v in seen.items()]


def perturb(cfg, kind, k):
    """Return a perturbed deep copy of cfg. `k` selects the position."""
    c = {
        "cmd": cfg["cmd"], "wd": cfg["wd"], "shell": cfg["shell"],
        "inp": [[p, list(h)] for p, h in cfg["inp"]],
        "env": [list(e) for e in cfg["env"]],
        "ov": [list(e) for e in cfg["ov"]],
    }

    def pick(lst):
        return lst[k % len(lst)] if lst else None

    if kind == "flip_shell":
        c["shell"] = not c["shell"]
    elif kind == "env_to_ov" and c["env"]:
        e = pick(c["env"])
        if e[1] is not None:
            c["env"].remove(e)
            c["ov"] = _dedupe([*c["ov"], e])
    elif kind == "ov_to_env" and c["ov"]:
        e = pick(c["ov"])
        c["ov"].remove(e)
        c["env"] = _dedupe([*c["env"], e])
    elif kind == "none_to_empty":
        for e in c["env"]:
            if e[1] is None:
                e[1] = ""
                break
    elif kind == "empty_to_none":
        for e in c["env"]:
            if e[1] == "":
                e[1] = None
                break
    elif kind == "drop_env" and c["env"]:
        c["env"].remove(pick(c["env"]))
    elif kind == "swap_kv_env" and c["env"]:
        e = pick(c["env"])
        if e[1] is not None:
            c["env"].remove(e)
            c["env"] = _dedupe([*c["env"], [e[1], e[0]]])
    elif kind == "swap_kv_ov" and c["ov"]:
        e = pick(c["ov"])
        c["ov"].remove(e)
        c["ov"] = _dedupe([*c["ov"], [e[1], e[0]]])
    elif kind == "shift_cmd_inp" and c["inp"] and c["cmd"]:
        first = sorted(c["inp"])[0]
        ch, rest = c["cmd"][-1], c["cmd"][:-1]
        if "  # wd=" not in rest:
            c["cmd"] = rest
            c["inp"].remove(first)
            c["inp"] = _dedupe([*c["inp"], [ch + first[0], first[1]]])
    elif kind == "shift_inp_inp" and len(c["inp"]) >= 2:
        a, b = sorted(c["inp"])[:2]
        if a[0]:
            c["inp"].remove(a)
            c["inp"].remove(b)
            c["inp"] = _dedupe([*c["inp"], [a[0][:-1], a[1]], [a[0][-1] + b[0], b[1]]])
    elif kind == "swap_mode_size" and c["inp"]:
        e = pick(c["inp"])
        e[1][1], e[1][2] = e[1][2] % 2**32, e[1][1]
    elif kind == "inp_to_env" and c["inp"]:
        e = pick(c["inp"])
        c["inp"].remove(e)
        c["env"] = _dedupe([*c["env"], [e[0], None]])
    elif kind == "digest_to_unknown" and c["inp"]:
        e = pick(c["inp"])
        e[1][0] = b"u" if e[1][0] != b"u" else bytes(32)
    elif kind == "rename_keyword":
        kw = _KEYWORDS[k % 4]
        if c["inp"] and k % 3 == 0:
            e = pick(c["inp"])
            c["inp"].remove(e)
            c["inp"] = _dedupe([*c["inp"], [kw, e[1]]])
        elif c["env"] and k % 3 == 1:
            e = pick(c["env"])
            c["env"].remove(e)
            c["env"] = _dedupe([*c["env"], [kw, e[1]]])
        else:
            c["cmd"] = kw
    elif kind == "change_wd":
        wds = [".", "sub/", "a/", "a/b/", "ab/", "../x/"]
        c["wd"] = wds[k % len(wds)]
    elif kind == "change_char":
        target = k % 4
        if target == 0:
            new = c["cmd"] + "x"
            if "  # wd=" not in new:
                c["cmd"] = new
        elif target == 1 and c["inp"]:
            e = pick(c["inp"])
            c["inp"].remove(e)
            c["inp"] = _dedupe([*c["inp"], [e[0] + "x", e[1]]])
        elif target == 2 and c["env"]:
            e = pick(c["env"])
            e[1] = (e[1] or "") + "x"
        elif target == 3 and c["ov"]:
            e = pick(c["ov"])
            e[1] = e[1] + "x"
    elif kind == "permute":
        for key in ("inp", "env", "ov"):
            lst = c[key]
            if lst:
                r = k % len(lst)
                c[key] = lst[r:] + lst[:r]
                c[key].reverse()
    elif kind == "split_path" and c["inp"]:
        e = pick(c["inp"])
        if len(e[0]) >= 2:
            c["inp"].remove(e)
            c["inp"] = _dedupe([*c["inp"], [e[0][:1], e[1]], [e[0][1:], list(e[1])]])
    elif kind == "cmd_wd_fold":
        # (cmd, wd) -> (cmd + suffix that imitates the workdir comment as far as allowed, ".")
        if c["wd"] != ".":
            new = c["cmd"] + "  # wd" + c["wd"]
            if "  # wd=" not in new:
                c["cmd"], c["wd"] = new, "."
    elif kind == "shift_name_value" and c["env"]:
        e = pick(c["env"])
        if e[1]:
            c["env"].remove(e)
            c["env"] = _dedupe([*c["env"], [e[0] + e[1][0], e[1][1:]]])
    return c


@st.composite
def _pair(draw):
    mode = draw(st.sampled_from(["perturb", "perturb", "perturb", "pool", "permute"]))
    if mode == "pool":
        small = st.fixed_dictionaries(
            {
                "cmd": st.sampled_from(["a", "ab", ""]),
                "wd": st.sampled_from([".", "a/"]),
                "shell": st.booleans(),
                "inp": st.lists(
                    st.tuples(
                        st.sampled_from(["a", "b", "__env_vars__"]),
                        st.tuples(
                            st.sampled_from([b"u", bytes(32)]), st.sampled_from([0, 1]),
                            st.sampled_from([0, 1]),
                        ).map(list),
                    ).map(list),
                    max_size=2, unique_by=lambda kv: kv[0],
                ),
                "env": st.lists(
                    st.tuples(st.sampled_from(["a", "b"]), st.sampled_from([None, "", "a"])).map(
                        list),
                    max_size=2, unique_by=lambda kv: kv[0],
                ),
                "ov": st.lists(
                    st.tuples(st.sampled_from(["a", "b"]), st.sampled_from(["", "a"])).map(list),
                    max_size=2, unique_by=lambda kv: kv[0],
                ),
            }
        )
        return {"mode": mode, "a": draw(small), "b": draw(small), "perts": []}
    base = draw(_CONFIG)
    if mode == "permute":
        perts = [["permute", draw(st.integers(0, 5))]]
    else:
        perts = draw(
            st.lists(
                st.tuples(st.sampled_from(_PERTURBATIONS), st.integers(0, 11)).map(list),
                min_size=1, max_size=3,
            )
        )
    other = base
    for kind, k in perts:
        other = perturb(other, kind, k)
    return {"mode": mode, "a": base, "b": other, "perts": perts}


def canonical(cfg):
    from stepup.core.step import Step

    label = Step.adjust_label(cfg["cmd"], cfg["wd"])
    return (
        label,
        bool(cfg["shell"]),
        tuple(sorted((p, (bytes(h[0]), h[1], h[2])) for p, h in cfg["inp"])),
        tuple(sorted(((n, v) for n, v in cfg["env"]), key=lambda nv: (nv[0], nv[1] is None,
                                                                    nv[1] or ""))),
        tuple(sorted((n, v) for n, v in cfg["ov"])),
    )


def canonical_cmd(cfg):
    return (cfg["cmd"], cfg["wd"])


def _digests(cfg, explained):
    from stepup.core.hash import FileHash, StepHash
    from stepup.core.step import Step

    label = Step.adjust_label(cfg["cmd"], cfg["wd"])
    inp = {p: FileHash(bytes(h[0]), h[1], 12.5, h[2], 7) for p, h in cfg["inp"]}
    env = {n: v for n, v in cfg["env"]}
    ov = {n: v for n, v in cfg["ov"]}
    sh = StepHash.from_inp(label, inp, env, explained=explained, shell=cfg["shell"],
                           env_overrides=ov)
    # The output digest is computed from the same kind of map; reuse `inp` as the out map.
    sh2 = sh.with_out_hashes(inp)
    return sh.inp_digest, sh2.out_digest, sh2


def check_digest_pair(case, rec, ctx):
    a, b = case["a"], case["b"]
    ca, cb = canonical(a), canonical(b)
    da_inp, da_out, sha = _digests(a, explained=False)
    db_inp, db_out, _ = _digests(b, explained=True)
    same_cfg = ca == cb
    same_cmd_pair = canonical_cmd(a) == canonical_cmd(b)
    if (ca[0] == cb[0]) != same_cmd_pair:
        # Two different (command, workdir) pairs map to one label (or vice versa).
        raise Violation(
            "C13/label-not-injective",
            f"(command, workdir) {canonical_cmd(a)!r} and {canonical_cmd(b)!r} give labels "
            f"{ca[0]!r} / {cb[0]!r}",
        )
    rec.event("equal-config" if same_cfg else "different-config")
    if same_cfg and da_inp != db_inp:
        raise Violation(
            "C13/inp-digest-depends-on-order-or-explained",
            f"equal configurations, different inp_digest: {a!r} vs {b!r}",
        )
    if not same_cfg and da_inp == db_inp:
        # Root-cause refinement: the only section boundary that a NUL-free str word can imitate
        # is the keyword that closes the env section, and only as an env variable *name*.
        names = {n for n, _ in a["env"]} | {n for n, _ in b["env"]}
        sig = "C13/inp-digest-collision"
        if "__env_overrides__" in names:
            sig += "/env-var-named-__env_overrides__"
        raise Violation(sig, f"configurations differ but share inp_digest: {a!r} vs {b!r}")
    same_out = ca[2] == cb[2]
    if same_out and da_out != db_out:
        raise Violation("C13/out-digest-depends-on-order", f"equal output maps, different "
                        f"out_digest: {a['inp']!r} vs {b['inp']!r}")
    if not same_out and da_out == db_out:
        raise Violation("C13/out-digest-collision", f"output maps differ but share out_digest: "
                        f"{a['inp']!r} vs {b['inp']!r}")
    if sha.inp_digest != da_inp:
        raise Violation("C13/with-out-hashes-changes-inp-digest", repr(a))
    for kind, _ in case["perts"]:
        rec.event("pert:" + kind)
    ndiff = sum(1 for x, y in zip(ca, cb) if x != y)
    if case["mode"] == "pool":
        rec.event("pool")
    if (same_cfg and (a != b)) or (not same_cfg and ndiff <= 2):
        rec.mark_nontrivial([ca, cb], sample={"a": a, "b": b, "perts": case["perts"],
                                              "equal": same_cfg})


# ---------------------------------------------------------------------------------------------
# file refresh

_CONTENT = st.one_of(
    st.sampled_from([b"", b"a", b"b", b"ab", b"ba", b"a" * 300000, b"b" * 300000]),
    st.binary(max_size=16),
)
_FOP = st.one_of(
    st.tuples(st.just("write"), st.integers(0, 2), _CONTENT),
    st.tuples(st.just("write_keep_mtime"), st.integers(0, 2), _CONTENT),
    st.tuples(st.just("replace"), st.integers(0, 2), _CONTENT),
    st.tuples(st.just("replace_keep_mtime"), st.integers(0, 2), _CONTENT),
    st.tuples(st.just("chmod"), st.integers(0, 2), st.sampled_from([0o644, 0o755, 0o600, 0o444])),
    st.tuples(st.just("utime"), st.integers(0, 2), st.sampled_from([1e9, 1.5e9, 1234567.25])),
    st.tuples(st.just("delete"), st.integers(0, 2), st.none()),
    st.tuples(st.just("noop"), st.integers(0, 2), st.none()),
).map(list)
_FILE_CASE = st.lists(_FOP, min_size=1, max_size=8)


def _apply_fop(d, op, idx, arg):
    path = os.path.join(d, f"f{idx}")
    exists = os.path.exists(path)
    if op == "write":
        with open(path, "wb") as fh:
            fh.write(arg)
    elif op == "write_keep_mtime":
        stt = os.stat(path) if exists else None
        with open(path, "wb") as fh:
            fh.write(arg)
        if stt is not None:
            os.utime(path, ns=(stt.st_atime_ns, stt.st_mtime_ns))
    elif op in ("replace", "replace_keep_mtime"):
        stt = os.stat(path) if exists else None
        tmp = path + ".tmp"
        with open(tmp, "wb") as fh:
            fh.write(arg)
        if stt is not None:
            os.chmod(tmp, stt.st_mode & 0o7777)
            if op == "replace_keep_mtime":
                os.utime(tmp, ns=(stt.st_atime_ns, stt.st_mtime_ns))
        os.replace(tmp, path)
    elif op == "chmod" and exists:
        os.chmod(path, arg)
    elif op == "utime" and exists:
        os.utime(path, (arg, arg))
    elif op == "delete" and exists:
        os.remove(path)


def _truth(path):
    try:
        stt = os.stat(path)
    except OSError:
        return None
    with open(path, "rb") as fh:
        content = fh.read()
    return {"digest": hashlib.sha256(content).digest(), "size": stt.st_size, "mode": stt.st_mode,
            "mtime": stt.st_mtime, "inode": stt.st_ino}


def check_file_refresh(case, rec, ctx):
    from stepup.core.hash import FileHash, compute_inp_hashes, compute_out_hashes

    d = ctx.scratch.fresh("files")
    try:
        paths = [os.path.join(d, f"f{i}") for i in range(3)]
        recorded = {p: FileHash.unknown() for p in paths}
        truth_at_record = {p: None for p in paths}
        for step, (op, idx, arg) in enumerate(case):
            _apply_fop(d, op, idx, arg)
            # Bulk functions first (they do not mutate), on the same recorded hashes.
            ev = threading.Event()
            known_inp = {p: h for p, h in recorded.items() if not h.is_unknown}
            res_inp = compute_inp_hashes(known_inp, ev) if known_inp else None
            res_out = compute_out_hashes(recorded, ev)
            for p in paths:
                h0 = recorded[p]
                t0 = truth_at_record[p]
                t1 = _truth(p)
                h1 = h0.refreshed(p)
                if t1 is None:
                    if not h1.is_unknown:
                        raise Violation("C13/refresh-missing-file-not-unknown", f"{op} step {step}")
                    expect_changed = t0 is not None
                else:
                    sem_changed = t0 is None or any(t0[k] != t1[k] for k in ("digest", "size",
                                                                           "mode"))
                    stat_differs = t0 is None or any(
                        t0[k] != t1[k] for k in ("mtime", "size", "inode", "mode"))
                    expect_changed = sem_changed and stat_differs
                    if sem_changed and stat_differs:
                        rec.mark_nontrivial([step, op, "detect", sorted(
                            k for k in ("digest", "size", "mode", "mtime", "inode")
                            if t0 is None or t0[k] != t1[k])], sample=case)
                    if sem_changed and not stat_differs:
                        rec.event("undetectable-by-contract")
                        rec.mark_nontrivial([op, "stat-restored"], sample=case)
                    if not sem_changed and h1 != h0:
                        raise Violation("C13/refresh-reports-change-without-change",
                                        f"{op} at step {step}: {h0} -> {h1}")
                    if h1 is not h0 and (h1.digest != t1["digest"] or h1.size != t1["size"]
                                         or h1.mode != t1["mode"]):
                        raise Violation("C13/refresh-wrong-fields",
                                        f"{op} at step {step}: {h1} vs truth {t1}")
                    if h1 is not h0 and (h1.mtime != t1["mtime"] or h1.inode != t1["inode"]):
                        raise Violation("C13/refresh-wrong-stat-fields",
                                        f"{op} at step {step}: {h1} vs truth {t1}")
                if expect_changed and h1 == h0:
                    raise Violation(
                        "C13/refresh-misses-change",
                        f"{op} at step {step} on {os.path.basename(p)}: content/size/mode changed "
                        f"and stat differs, but refreshed() == recorded hash ({h0})",
                    )
                # Bulk results agree with the single-file result.
                if (p in res_out.new_hashes) != (h1 != h0):
                    raise Violation("C13/compute-out-hashes-disagrees", f"{op} step {step}")
                if res_out.all_hashes[p] != h1:
                    raise Violation("C13/compute-out-hashes-all-disagrees", f"{op} step {step}")
                if (p in res_out.messages) != h1.is_unknown:
                    raise Violation("C13/compute-out-hashes-missing-report", f"{op} step {step}")
                if res_inp is not None and p in known_inp:
                    if (p in res_inp.new_hashes) != (h1 != h0):
                        raise Violation("C13/compute-inp-hashes-disagrees", f"{op} step {step}")
                    reported = any(p in m for m in res_inp.messages)
                    if reported != (h1 != h0):
                        raise Violation("C13/compute-inp-hashes-message", f"{op} step {step}")
                rec.event("op:" + op)
                if h1 is not h0:
                    recorded[p] = h1
                    truth_at_record[p] = t1
                # JSON round trip of whatever is recorded.
                h2 = FileHash.from_json(recorded[p].to_json())
                hr = recorded[p]
                if (h2.digest, h2.mode, h2.mtime, h2.size, h2.inode) != (
                        hr.digest, hr.mode, hr.mtime, hr.size, hr.inode):
                    raise Violation("C13/filehash-json-roundtrip", f"{hr!r} -> {h2!r}")
    finally:
        ctx.scratch.release(d)


# ---------------------------------------------------------------------------------------------
# round trip

_FH_FULL = st.tuples(
    _DIGEST, _MODE, st.floats(min_value=0, max_value=4e9, allow_nan=False), _SIZE,
    st.integers(0, 2**63 - 1)).map(list)
_RT_CASE = st.fixed_dictionaries(
    {
        "label": _NAME,
        "shell": st.booleans(),
        "explained": st.booleans(),
        "inp": st.lists(st.tuples(_NAME, _FH_FULL).map(list), max_size=3,
                        unique_by=lambda kv: kv[0]),
        "out": st.one_of(st.none(), st.lists(st.tuples(_NAME, _FH_FULL).map(list), max_size=3,
                                             unique_by=lambda kv: kv[0])),
        "env": st.lists(st.tuples(_NAME, st.one_of(st.none(), _NAME)).map(list), max_size=3,
                        unique_by=lambda kv: kv[0]),
        "ov": st.lists(st.tuples(_NAME, _NAME).map(list), max_size=3, unique_by=lambda kv: kv[0]),
    }
)


def _fh_fields(h):
    return (h.digest, h.mode, h.mtime, h.size, h.inode)


def check_roundtrip(case, rec, ctx):
    from stepup.core.hash import FileHash, StepHash

    def mk(items):
        return {p: FileHash(bytes(h[0]), h[1], h[2], h[3], h[4]) for p, h in items}

    inp = mk(case["inp"])
    for p, h in inp.items():
        h2 = FileHash.from_json(h.to_json())
        if h.is_unknown:
            if not h2.is_unknown:
                raise Violation("C13/filehash-json-roundtrip", f"unknown hash {h!r} -> {h2!r}")
        elif _fh_fields(h) != _fh_fields(h2):
            raise Violation("C13/filehash-json-roundtrip", f"{_fh_fields(h)} -> {_fh_fields(h2)}")
    sh = StepHash.from_inp(case["label"], inp, dict(map(tuple, case["env"])),
                           explained=case["explained"], shell=case["shell"],
                           env_overrides=dict(map(tuple, case["ov"])))
    if case["out"] is not None:
        sh = sh.with_out_hashes(mk(case["out"]))
    sh2 = StepHash.from_json(sh.to_json())
    if sh2.inp_digest != sh.inp_digest or sh2.out_digest != sh.out_digest:
        raise Violation("C13/stephash-json-roundtrip-digest", f"{sh!r} -> {sh2!r}")
    if (sh.inp_info is None) != (sh2.inp_info is None) or (sh.out_info is None) != (
            sh2.out_info is None):
        raise Violation("C13/stephash-json-roundtrip-info-presence", f"{sh!r} -> {sh2!r}")
    if sh.inp_info is not None:
        a, b = sh.inp_info, sh2.inp_info
        if (a.env_values != b.env_values or a.env_overrides != b.env_overrides
                or set(a.inp_hashes) != set(b.inp_hashes)
                or any(_fh_fields(a.inp_hashes[p]) != _fh_fields(b.inp_hashes[p])
                       for p in a.inp_hashes)):
            raise Violation("C13/stephash-json-roundtrip-inp-info", f"{a!r} -> {b!r}")
        if case["inp"] or case["env"] or case["ov"]:
            rec.mark_nontrivial(case, sample=case)
    if sh.out_info is not None:
        a, b = sh.out_info, sh2.out_info
        if set(a.out_hashes) != set(b.out_hashes) or any(
                _fh_fields(a.out_hashes[p]) != _fh_fields(b.out_hashes[p]) for p in a.out_hashes):
            raise Violation("C13/stephash-json-roundtrip-out-info", f"{a!r} -> {b!r}")
    # A second save must be byte-identical (stored hashes survive unchanged).
    if sh2.to_json() != sh.to_json():
        raise Violation("C13/stephash-json-not-stable", f"{sh.to_json()} vs {sh2.to_json()}")


def subchecks(tier):
    big = tier == "thorough"
    return [
        SubCheck("digest_pairs", check_digest_pair, strategy=_pair,
                 examples=2_000_000 if big else 120_000),
        SubCheck("file_refresh", check_file_refresh, strategy=_FILE_CASE,
                 examples=200_000 if big else 16_000),
        SubCheck("roundtrip", check_roundtrip, strategy=_RT_CASE,
                 examples=400_000 if big else 32_000),
    ]

MANIFEST = {
    "engine": "E4-pure",
    "technique": "property-based testing: Hypothesis pairs with structured perturbations, "
                 "injectivity oracle (canonical config equality <=> digest equality), file-system "
                 "op sequences against a stat/content reference, JSON round-trip",
    "level_text": "Exploration by generated inputs: ~10^5 (quick) / 10^6 (thorough) configuration "
                  "pairs built to sit on word-boundary, section and type-marker edges, both "
                  "directions of the equivalence checked; real files for the stat shortcut. "
                  "Right level because the property is a universally quantified statement over "
                  "finite maps of strings with a cheap exact oracle; it cannot prove absence.",
    "level_note": "SHA-256 collision freedom; NUL-free words without lone surrogates; scratch "
                  "file system reports inode/mtime/size faithfully",
}
