"""C14  A watch-mode rebuild is equivalent to a restart.

Engine E1 with the real watcher (real inotify on the scratch file system). A generated project
is built by a director started with do_watch=True; while it is watching (and, for static files,
at a drawn turn point of the running first build) a generated sequence of file-system actions is
applied to sources, scripts, outputs, glob-matched paths, files of static trees and their
directories. Then the project directory is copied, the watching director is told to rebuild, and
a second director is started on the copy (a restart on the same file-system state and the same
database). Both results are compared.
"""

import asyncio
import os
import shutil

from hypothesis import strategies as st

from harness import history as H
from harness import specgen
from harness.common import HarnessError, SubCheck, Violation
from harness.sim import dump_tables, fs_snapshot, run_build
from props.c01 import check_serve_health

PROPERTY = "C14"
LEVEL = "exploration"
RULE = (
    "Specs as in C01 (plans up to three levels, globs with one step per match, static files / "
    "trees / patterns per directory, optional steps, amended inputs) plus a sentinel source; "
    "1-6 actions while watching drawn from: rewrite a source or script with new or identical "
    "content, delete it, delete and re-create it, add a file next to the sources (new glob "
    "match), delete or overwrite an output, remove a source directory with its files, remove and "
    "re-create it with the same or other content, rename it away and back, rename it away for "
    "good; 0-2 rewrites of static files at a drawn turn point of the first build; 0-3 loop turns "
    "and 0-2 ms between actions. The harness waits until the watcher has reported the sentinel "
    "(written last) and its queues are drained, copies the directory, triggers the rebuild, and "
    "runs a fresh director on the copy. Oracle: same return-code class, same content of every "
    "file outside .stepup, same projected active graph (nodes, roles, states, creators, edges, "
    "digests). Non-trivial = at least one action made the watcher report a change; distinct by "
    "(spec, actions)."
)
ASSUMPTIONS = [
    "The comparison starts after the watcher has reported the last change made (the documented "
    "way to synchronise with it: wait_for_update); what happens if a rebuild is requested while "
    "events are still in flight is out of scope.",
    "Simulated steps are deterministic functions of their inputs, so equal inputs give equal "
    "outputs on both sides.",
]

SENTINEL = "sentinel.txt"


def _source_dirs(spec):
    return sorted({os.path.dirname(p) for p in spec["sources"] if os.path.dirname(p)})


@st.composite
def _cases(draw):
    spec = draw(specgen.specs(max_steps=5))
    for sd in spec["steps"].values():
        sd["fail"] = None
    spec["sources"][SENTINEL] = "sentinel v0\n"
    spec["steps"]["sent"] = {"script": "sent.py", "args": [], "workdir": ".", "inp": [SENTINEL],
                             "out": ["out/sentinel.out"], "vol": [], "env": [], "need": "default",
                             "resources": {}, "amend_inp": [], "amend_out": [],
                             "read_first": False, "fail": None, "partial": False, "variant": 0}
    spec["plans"]["plan.py"]["items"].append(["step", "sent"])
    sources = sorted(p for p in spec["sources"] if p != SENTINEL)
    scripts = sorted({sd["script"] for sd in spec["steps"].values()})
    outs = sorted(specgen.declared_outputs(spec))
    dirs = _source_dirs(spec)
    actions = []
    for _ in range(draw(st.integers(1, 6))):
        kind = draw(st.sampled_from(
            ["rewrite", "rewrite", "same", "delete", "delete_recreate", "add", "add",
             "del_output", "spoil_output", "rmtree", "rmtree_recreate", "rename_back",
             "rename_away", "script"]))
        pause = [draw(st.integers(0, 3)), draw(st.integers(0, 2))]
        if kind in ("rewrite", "same", "delete", "delete_recreate") and sources:
            p = draw(st.sampled_from(sources))
            content = spec["sources"][p] if kind == "same" or (
                kind == "delete_recreate" and draw(st.booleans())) else \
                f"{p} watch edit {draw(st.integers(0, 3))}\n"
            actions.append([kind, p, content, pause])
        elif kind == "add":
            d = draw(st.sampled_from(dirs + [""]))
            name = draw(st.sampled_from(["s7.txt", "s8.txt", "n1.txt", "x.dat"]))
            actions.append(["rewrite", os.path.join(d, name), f"added {name}\n", pause])
        elif kind in ("del_output", "spoil_output") and outs:
            actions.append([kind, draw(st.sampled_from(outs)), "spoiled\n", pause])
        elif kind in ("rmtree", "rmtree_recreate", "rename_back", "rename_away") and dirs:
            d = draw(st.sampled_from(dirs))
            actions.append([kind, d, draw(st.sampled_from(["same", "changed", "fewer"])), pause])
        elif kind == "script" and scripts:
            actions.append(["script", draw(st.sampled_from(scripts)), draw(st.integers(1, 2)),
                            pause])
    during = []
    for _ in range(draw(st.integers(0, 2))):
        if sources:
            p = draw(st.sampled_from(sources))
            during.append([draw(st.integers(1, 25)), p,
                           f"{p} edit during build {draw(st.integers(0, 2))}\n"])
    build = specgen.build_config(draw, final=True, resources="gpu:2,lic:2")
    build["keep_going"] = draw(st.booleans())
    # One job at a time: with a failing plan, which of its former products still get a chance to
    # run depends on the schedule (C02's domain), and the two sides cannot share a schedule.
    build["njob"] = 1
    return {"spec": spec, "actions": actions, "during": during, "build": build,
            "rebuild_choices": draw(st.lists(st.integers(0, 255), max_size=20))}


def _write(path, content):
    parent = os.path.dirname(path)
    if parent:
        os.makedirs(parent, exist_ok=True)
    with open(path, "w") as fh:
        fh.write(content)


def apply_action(act, spec):
    kind, target = act[0], act[1]
    if kind in ("rewrite", "same"):
        _write(target, act[2])
    elif kind == "delete":
        if os.path.isfile(target):
            os.remove(target)
    elif kind == "delete_recreate":
        if os.path.isfile(target):
            os.remove(target)
        _write(target, act[2])
    elif kind == "del_output":
        if os.path.isfile(target):
            os.remove(target)
    elif kind == "spoil_output":
        if os.path.isfile(target):
            _write(target, act[2])
    elif kind == "script":
        if os.path.isfile(target):
            with open(target) as fh:
                text = fh.read()
            # a different body that computes something else (see specgen.step_program)
            import json

            lines = text.split("\n", 1)
            prog = json.loads(lines[1])
            prog.insert(0, ["env", f"VERIF_VARIANT_{act[2]}"])
            with open(target, "w") as fh:
                fh.write(lines[0] + "\n" + json.dumps(prog))
    elif kind in ("rmtree", "rmtree_recreate", "rename_back", "rename_away"):
        if not os.path.isdir(target):
            return
        files = {}
        for name in sorted(os.listdir(target)):
            full = os.path.join(target, name)
            if os.path.isfile(full):
                with open(full) as fh:
                    files[name] = (fh.read(), os.stat(full).st_mode)
        if kind == "rename_back":
            os.rename(target, target + ".moved")
            os.rename(target + ".moved", target)
        elif kind == "rename_away":
            if not os.path.exists(target + ".away"):
                os.rename(target, target + ".away")
        else:
            shutil.rmtree(target)
            if kind == "rmtree_recreate":
                os.makedirs(target)
                for k, (name, (content, mode)) in enumerate(files.items()):
                    if act[2] == "fewer" and k == 0:
                        continue
                    full = os.path.join(target, name)
                    with open(full, "w") as fh:
                        fh.write(content if act[2] != "changed" else content + "changed\n")
                    os.chmod(full, mode)


def classify_graph_diff(g_w, g_r):
    """Root-cause refinement of a graph difference (the generic signature is graph-differs)."""
    only_w = [f for f in g_w if f not in set(g_r)]
    only_r = [f for f in g_r if f not in set(g_w)]

    def dir_matches(facts):
        out = set()
        for f in facts:
            if f[0] == "nglob":
                import json as _json

                for _values, paths in _json.loads(f[3]) if isinstance(f[3], str) else f[3]:
                    out.update(p for p in paths if p.endswith("/"))
        return out

    dw, dr = dir_matches(only_w), dir_matches(only_r)
    if dw != dr:
        # A directory that is (only) a match of a glob pattern appeared, disappeared or was
        # renamed while watching: restart re-globs, the watcher does not watch such a directory.
        return "directory-glob-match-changed-unnoticed-by-watcher"
    steps_w = {f[1]: f for f in only_w if f[0] == "step"}
    steps_r = {f[1]: f for f in only_r if f[0] == "step"}
    # (what a succeeded run discovered - dynamic edges, amended outputs - is only part of the
    # projection of the side where the step is SUCCEEDED)
    other = [f for f in only_w + only_r if f[0] not in ("step", "file")
             and not (f[0] == "edge" and f[3] == "dynamic" and f in only_w
                      and (f[1][5:] in steps_w or f[2][5:] in steps_w))]
    if steps_w and set(steps_w) == set(steps_r) and not other and all(
            steps_w[k][3] == "SUCCEEDED" and steps_r[k][3] == "PENDING" for k in steps_w):
        files_w = {f[1]: f for f in only_w if f[0] == "file"}
        files_r = {f[1]: f for f in only_r if f[0] == "file"}
        if set(files_r) <= set(files_w) and all(
                files_w[k][3] == "BUILT" and files_w[k][2][5:] in steps_w
                and (k not in files_r or (files_r[k][3] == "OUTDATED"
                                          and files_w[k][2] == files_r[k][2]))
                for k in files_w):
            # Same steps, same files; only: the consumers of an output that changed on disk and
            # could not be rebuilt stay SUCCEEDED after the watch rebuild and are PENDING (outputs
            # OUTDATED) after a restart.
            return "consumer-of-unrebuilt-changed-output-succeeded-in-watch-pending-after-restart"
    return "graph-differs"


def copy_project(src, dst):
    shutil.copytree(src, dst, symlinks=True,
                    ignore=shutil.ignore_patterns("director", "*.sock"))


def non_stepup_files(snapshot):
    return {p: e["sha"] for p, e in snapshot.items() if e["type"] == "file"}


async def check_case(case, rec, ctx):
    import stepup.core.watcher as watcher_mod

    d = ctx.scratch.fresh("watch")
    restart_dir = ctx.scratch.fresh("restart")
    os.rmdir(restart_dir)
    os.chdir(d)
    spec = case["spec"]
    specgen.materialize(spec, set())
    side = {}
    wrappers = []
    orig_enter = watcher_mod.AsyncInotifyWrapper.__aenter__

    async def enter(self):
        wrappers.append(self)
        return await orig_enter(self)

    async def quiet(handler):
        """The watcher's queues stay empty for a while (directory rescans are asynchronous)."""
        calm = 0
        for _ in range(3000):
            w = wrappers[-1] if wrappers else None
            busy = w is not None and (not w.change_queue.empty()
                                      or not handler.watcher.dir_queue.empty())
            calm = 0 if busy else calm + 1
            if calm >= 25:
                return
            await asyncio.sleep(0.002)
        raise HarnessError("the watcher queues never drained")

    async def watch_script(session, handler):
        try:
            await asyncio.wait_for(handler.wait_for_idle(), 40)
            turn["first_build"] = False
            side["first_rc"] = handler.builder.returncode
            reported0 = len(session.reporter_client.events)
            for act in case["actions"]:
                apply_action(act, spec)
                for _ in range(act[-1][0]):
                    await asyncio.sleep(0)
                if act[-1][1]:
                    await asyncio.sleep(act[-1][1] / 1000)
            _write(SENTINEL, "sentinel v1\n")
            await asyncio.wait_for(handler.wait_for_update(SENTINEL), 20)
            await quiet(handler)
            side["reported"] = [(t, dsc) for t, dsc, _ in
                                session.reporter_client.events[reported0:]
                                if t in ("UPDATED", "DELETED")]
            copy_project(d, restart_dir)
            session.pump.choices = list(case["rebuild_choices"])
            session.pump.pos = 0
            ncmd = len(session.commands_started)
            await asyncio.wait_for(handler.start_build_phase(), 40)
            await asyncio.wait_for(handler.wait_for_idle(), 40)
            side["rc"] = handler.builder.returncode
            side["commands"] = session.commands_started[ncmd:]
            async with handler.db:
                side["tables"] = dump_tables(handler.db._require_transaction_con())
            side["files"] = non_stepup_files(fs_snapshot("."))
            side["events"] = list(session.reporter_client.events)
        except asyncio.TimeoutError:
            side["timeout"] = True
            for w in wrappers:
                for task in (w.dir_loop_task, w.change_loop_task):
                    if task is not None and task.done() and not task.cancelled() \
                            and task.exception() is not None:
                        exc = task.exception()
                        import traceback
                        side["watcher_crash"] = (task.get_name(), type(exc).__name__, str(exc),
                                                 "".join(traceback.format_exception(exc))[-1500:])
        finally:
            await handler.shutdown()

    turn = {"n": 0, "first_build": True}

    def session_setup(session):
        def on_turn(sess, label, opname):
            if not turn["first_build"]:
                return
            turn["n"] += 1
            for at, path, content in case["during"]:
                if at == turn["n"] and os.path.isfile(path):
                    _write(path, content)
        session.on_turn = on_turn

    watcher_mod.AsyncInotifyWrapper.__aenter__ = enter
    try:
        cfg = H.serve_config(case["build"])
        cfg["do_watch"] = True
        result = await run_build(cfg, choices=case["build"]["choices"], env=H.build_env(spec),
                                 watch_script=watch_script, session_setup=session_setup,
                                 timeout=150)
    finally:
        watcher_mod.AsyncInotifyWrapper.__aenter__ = orig_enter
    try:
        stage = H.StageRecord()
        stage.result, stage.spec, stage.config = result, spec, case["build"]
        if side.get("watcher_crash"):
            name, etype, msg, tb = side["watcher_crash"]
            raise Violation(
                f"{PROPERTY}/watcher-stops-reporting/{etype}-in-{name.split('.')[-1]}",
                f"after actions {[a[:2] for a in case['actions']]} the task {name} of the "
                f"watcher died with {etype}: {msg}; the director kept waiting in the watch phase "
                f"and reported nothing any more (the change of {SENTINEL} was never seen)\n{tb}")
        if side.get("timeout") or result.timed_out:
            raise HarnessError(f"watch side did not reach the next phase in time: {side.keys()}")
        check_serve_health(PROPERTY, stage, "watch")
        if "tables" not in side:
            raise HarnessError(f"watch script ended early: {sorted(side)}")
        # the restart on the copy
        os.chdir(restart_dir)
        junk = os.path.join(".stepup", "director")
        if os.path.exists(junk):
            os.remove(junk)
        rcfg = H.serve_config(case["build"])
        r2 = await run_build(rcfg, choices=case["rebuild_choices"], env=H.build_env(spec))
        stage2 = H.StageRecord()
        stage2.result, stage2.spec, stage2.config = r2, spec, case["build"]
        check_serve_health(PROPERTY, stage2, "restart")
        what = (f"actions {[a[:2] for a in case['actions']]}, during build "
                f"{[x[:2] for x in case['during']]}; watcher reported {side['reported'][:8]}")
        rc_w, rc_r = H.returncode_class(side["rc"]), H.returncode_class(r2.returncode)
        rec.event("rc:" + rc_w)
        # Root-cause refinement (recorded finding): the restart's startup scan reports a change
        # of a directory-level glob match that the watcher never reported.
        seen_by_watcher = {dsc for _t, dsc in side["reported"]}
        unnoticed_dirs = sorted({dsc.split(" (")[0] for t, dsc, _ in r2.events
                                 if t in ("UPDATED", "DELETED")
                                 and dsc.split(" (")[0].endswith("/")} - seen_by_watcher)

        def sig(generic):
            return "directory-glob-match-changed-unnoticed-by-watcher" if unnoticed_dirs \
                else generic

        if unnoticed_dirs:
            what += f"; directory matches only the restart noticed: {unnoticed_dirs}"
        if rc_w != rc_r:
            raise Violation(
                f"{PROPERTY}/{sig('return-code-differs')}",
                f"rebuild while watching ended {rc_w}, restart on the same files ended {rc_r}; "
                f"{what}; watch side ran {side['commands']}, restart ran {r2.commands}")
        files_r = non_stepup_files(fs_snapshot("."))
        if side["files"] != files_r:
            only_w = sorted(set(side["files"]) - set(files_r))
            only_r = sorted(set(files_r) - set(side["files"]))
            differ = sorted(p for p in files_r if p in side["files"]
                            and files_r[p] != side["files"][p])
            raise Violation(
                f"{PROPERTY}/{sig('files-differ')}",
                f"only after the watch rebuild: {only_w}; only after the restart: {only_r}; "
                f"different content: {differ}; {what}; watch side ran {side['commands']}, "
                f"restart ran {r2.commands}")
        g_w = H.project_graph(side["tables"])
        g_r = H.project_graph(r2.tables)
        if g_w != g_r:
            raise Violation(f"{PROPERTY}/{sig(classify_graph_diff(g_w, g_r))}",
                            what + "\n" + H.diff_facts(g_w, g_r, "watch rebuild", "restart"))
        if side["reported"]:
            rec.mark_nontrivial([spec, case["actions"], case["during"]],
                                sample={"actions": [a[:2] for a in case["actions"]],
                                        "during_build": [x[:2] for x in case["during"]],
                                        "reported": side["reported"][:6],
                                        "rebuilt": side["commands"][:6]})
        for a in case["actions"]:
            rec.event("action:" + a[0])
        rec.event("reran=%d" % min(len(side["commands"]), 5))
    finally:
        os.chdir(ctx.scratch.root)
        shutil.rmtree(d, ignore_errors=True)
        shutil.rmtree(restart_dir, ignore_errors=True)


def subchecks(tier):
    big = tier == "thorough"
    return [SubCheck("watch_vs_restart", check_case, strategy=_cases,
                     examples=40_000 if big else 1_600)]


MANIFEST = {
    "engine": "E1-SimStepUp with the real watcher (inotify)",
    "technique": "differential property testing: generated file-system event sequences applied "
                 "to a watching director; its rebuild is compared with a restarted director on a "
                 "copy of the same directory and database",
    "level_text": "Exploration of event sequences incl. cancelling pairs and directory "
                  "removal/re-creation/moves; exact equality oracle on files, graph and return "
                  "code.",
    "level_note": "real inotify on tmpfs; synchronised through wait_for_update on a sentinel "
                  "written last plus drained watcher queues; static-file edits during the first "
                  "build at drawn turn points",
}
