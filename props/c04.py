"""C04  Rebuilding with nothing changed does nothing; edits rerun only their cone.

Engine E1. Any generated history that ends in a successful build (so every reachable database
state: recycled nodes, creator changes, reverted optional steps ...) is followed by
(i) a restart with nothing changed, under a fresh drawn schedule, and
(ii) an edit of a drawn subset of source files and another restart.
"""

import os
import re

from hypothesis import strategies as st

from harness import history as H
from harness import specgen
from harness.common import SubCheck, Violation
from harness.sim import fs_snapshot
from props.c01 import check_serve_health

PROPERTY = "C04"
LEVEL = "exploration"
RULE = (
    "Histories as in C01 (1-3 stages) whose last build succeeds, then a no-change restart with "
    "a drawn njob/schedule, then an edit of 1-3 source files (content change, add/delete, or a "
    "rewrite with identical content, which justifies nothing) and a rebuild. Oracle (i): no command starts, the report says 'Ran 0 job(s)', every output "
    "keeps inode, mtime and content, the graph text and all tables are unchanged. Oracle (ii): "
    "every executed command is in the closure stated by the property, computed from the tables "
    "before and after the rebuild. Non-trivial = the preceding history detached or recycled a "
    "node, or the edit left at least one step outside the cone; distinct by the specs and edits."
)
ASSUMPTIONS = [
    "Simulated steps are deterministic pure functions; scripts are not edited in part (ii).",
    "Restart builds only; the watch-mode variant of the no-change rebuild is covered by C14.",
]


@st.composite
def _cases(draw):
    hist = draw(specgen.histories(max_steps=6, min_builds=1, max_builds=3))
    resources = hist["stages"][0]["build"]["resources"]
    final_spec = hist["stages"][-1]["spec"]
    sources = sorted(final_spec["sources"])
    nedit = draw(st.integers(1, 3))
    edits = []
    for _ in range(nedit):
        kind = draw(st.sampled_from(["change", "change", "change", "add", "delete", "touch"]))
        if kind == "touch" and sources:
            # rewritten with the same content: new mtime (and inode), same digest
            edits.append(["touch", draw(st.sampled_from(sources))])
            continue
        if kind == "change" and sources:
            edits.append(["change", draw(st.sampled_from(sources)), draw(st.integers(5, 9))])
        elif kind == "add":
            d = draw(st.sampled_from(specgen.SRC_DIRS))
            edits.append(["add", f"{d}e{draw(st.integers(0, 2))}.txt"])
        elif kind == "delete" and len(sources) > 1:
            edits.append(["delete", draw(st.sampled_from(sources))])
    return {
        "stages": hist["stages"],
        "noop_build": specgen.build_config(draw, final=True, resources=resources),
        "edits": edits,
        "edit_build": specgen.build_config(draw, final=True, resources=resources),
    }


def _succeeded_cleanly(r):
    return H.returncode_class(r.result.returncode) == "OK"


async def check_case(case, rec, ctx):
    d = None
    try:
        try:
            records, ledger, d = await H.run_history(case, ctx)
        finally:
            d = d or os.getcwd()
        for i, r in enumerate(records):
            check_serve_health(PROPERTY, r, i)
        if len(records) < len(case["stages"]) or not _succeeded_cleanly(records[-1]):
            rec.event("skipped:last-build-not-successful")
            return
        last = records[-1]
        spec = last.spec
        user_files = set(specgen.render(spec))
        # (i) nothing changed
        noop, _ = await H.run_stage(spec, case["noop_build"], ledger, user_files)
        check_serve_health(PROPERTY, noop, "noop")
        if noop.result.commands:
            raise Violation(
                f"{PROPERTY}/command-executed-without-change",
                f"no-change rebuild executed {noop.result.commands}; events "
                f"{[(t, d_) for t, d_, _ in noop.result.events]}",
            )
        ran = [d_ for d_ in noop.result.tags("DIRECTOR") if d_.startswith("Ran ")]
        if ran != ["Ran 0 job(s)."]:
            raise Violation(f"{PROPERTY}/ran-jobs-without-change", f"report says {ran}")
        if H.returncode_class(noop.result.returncode) != "OK":
            raise Violation(f"{PROPERTY}/no-change-rebuild-not-successful",
                            f"return code {noop.result.returncode}")
        for path, entry in last.after.items():
            other = noop.after.get(path)
            if other != entry:
                raise Violation(
                    f"{PROPERTY}/file-touched-without-change",
                    f"{path}: before {entry}, after the no-change rebuild {other}",
                )
        extra = set(noop.after) - set(last.after)
        if extra:
            raise Violation(f"{PROPERTY}/file-created-without-change", f"{sorted(extra)}")
        g0 = H.project_graph(last.result.tables, strict=True)
        g1 = H.project_graph(noop.result.tables, strict=True)
        if g0 != g1:
            raise Violation(f"{PROPERTY}/graph-changed-without-change",
                            H.diff_facts(g0, g1, "before", "after"))
        skips = len(noop.result.tags("SKIP"))
        rec.event("noop:hash-checked" if skips else "noop:nothing-pending")
        # (ii) edit sources only
        new_spec = {**spec, "sources": dict(spec["sources"])}
        edited = set()
        for e in case["edits"]:
            if e[0] == "change" and e[1] in new_spec["sources"]:
                new_spec["sources"][e[1]] = f"{e[1]} edited {e[2]}\n"
                edited.add(e[1])
            elif e[0] == "add" and e[1] not in new_spec["sources"]:
                new_spec["sources"][e[1]] = f"added {e[1]}\n"
                edited.add(e[1])
            elif e[0] == "delete" and e[1] in new_spec["sources"] and len(
                    new_spec["sources"]) > 1:
                del new_spec["sources"][e[1]]
                edited.add(e[1])
        # Only the data files change on disk: scripts are rendered from the *old* spec so that
        # this really is "editing source files only".
        _apply_source_edits(spec, new_spec)
        for e in case["edits"]:
            if e[0] == "touch" and e[1] in new_spec["sources"] and e[1] not in edited \
                    and os.path.isfile(e[1]):
                with open(e[1]) as fh:
                    content = fh.read()
                os.remove(e[1])
                with open(e[1], "w") as fh:
                    fh.write(content)
                os.utime(e[1], ns=(2_000_000_000_000_000_000, 2_000_000_000_000_000_000))
                rec.event("edit:touch-only")
        before_tables = noop.result.tables
        from harness.sim import run_build

        result = await run_build(H.serve_config(case["edit_build"]),
                                 choices=case["edit_build"].get("choices", ()),
                                 env=H.build_env(spec))
        stage = H.StageRecord()
        stage.result, stage.spec, stage.config = result, spec, case["edit_build"]
        check_serve_health(PROPERTY, stage, "edit")
        executed = list(dict.fromkeys(result.commands))
        unjustified = cone_violations(executed, edited, before_tables, result.tables)
        if unjustified:
            sig = f"{PROPERTY}/command-outside-cone"
            if all(_dynamic_input_transiently_detached(s_, executed, before_tables)
                   for s_ in unjustified):
                sig = f"{PROPERTY}/rerun-of-step-whose-dynamic-input-was-transiently-detached"
            raise Violation(
                sig,
                f"after editing only {sorted(edited)}, these steps ran without justification: "
                f"{unjustified}; all executed: {executed}",
            )
        all_steps = [lbl for lbl, (_, det) in H.step_states(result.tables).items() if not det]
        outside = [s for s in all_steps if s not in executed]
        history_kinds = {dsc[0] for stg in case["stages"][1:] for dsc in stg["edit"]}
        if outside and executed or (history_kinds & {"drop_step", "readd_step", "move_step",
                                                     "rename_output", "readd_subplan"}):
            rec.mark_nontrivial([[s["spec"] for s in case["stages"]], case["edits"]],
                                sample={"history": [s["edit"] for s in case["stages"]],
                                        "source_edits": case["edits"], "executed": executed,
                                        "not_executed": outside[:8]})
        rec.event(f"cone:executed={min(len(executed), 4)}")
    finally:
        if d:
            H.cleanup_dir(ctx, d)


def _apply_source_edits(old_spec, new_spec):
    for path in set(old_spec["sources"]) - set(new_spec["sources"]):
        if os.path.isfile(path):
            os.remove(path)
    for path, content in new_spec["sources"].items():
        if old_spec["sources"].get(path) != content:
            parent = os.path.dirname(path)
            if parent:
                os.makedirs(parent, exist_ok=True)
            with open(path, "w") as fh:
                fh.write(content)


def _dynamic_input_transiently_detached(label, executed, tables):
    """The step has an amended input whose producer is declared (directly or through sub-plans)
    by an executed plan step, so the input was detached while that plan was being rerun."""
    nodes = {n["i"]: n for n in tables["node"]}
    by_label = {n["label"]: n["i"] for n in tables["node"] if n["kind"] == "step"}
    dynamic = {d["i"] for d in tables["dynamic_dep"]}
    if label not in by_label:
        return False
    me = by_label[label]
    producers = {}
    for dep in tables["dependency"]:
        if nodes[dep["source"]]["kind"] == "step":
            producers[dep["sink"]] = dep["source"]
    for dep in tables["dependency"]:
        if dep["sink"] == me and dep["i"] in dynamic:
            node = producers.get(dep["source"])
            while node is not None:
                creator = nodes[node]["creator"]
                if creator is None or nodes[creator]["kind"] != "step":
                    break
                if nodes[creator]["label"] in executed:
                    return True
                node = creator
    return False


def cone_violations(executed, edited, before, after):
    """Executed step labels that the closure of the property statement does not justify."""
    def index(tables):
        nodes = {n["i"]: n for n in tables["node"]}
        steps = {s["node"] for s in tables["step"]}
        consumes = {}  # step label -> set of file labels
        produces = {}  # step label -> set of file labels
        creator = {}
        for dep in tables["dependency"]:
            src, snk = nodes[dep["source"]], nodes[dep["sink"]]
            if dep["sink"] in steps and src["kind"] == "file":
                consumes.setdefault(snk["label"], set()).add(src["label"])
            if dep["source"] in steps and snk["kind"] == "file":
                produces.setdefault(src["label"], set()).add(snk["label"])
        for i in steps:
            c = nodes[i]["creator"]
            if c is not None and nodes[c]["kind"] == "step":
                creator[nodes[i]["label"]] = nodes[c]["label"]
        globs = {}
        for g in tables["nglob"]:
            globs.setdefault(nodes[g["node"]]["label"], []).append(g["regex"])
        return consumes, produces, creator, globs

    cb, pb, crb, gb = index(before)
    ca, pa, cra, ga = index(after)
    justified = set()
    for s in executed:
        inputs = cb.get(s, set()) | ca.get(s, set())
        if inputs & edited:
            justified.add(s)
            continue
        for regex in gb.get(s, []) + ga.get(s, []):
            if any(re.fullmatch(regex, p) or re.fullmatch(regex, p + "/") for p in edited) or \
                    any(re.fullmatch(regex, os.path.dirname(p) + "/") for p in edited):
                justified.add(s)
                break
    changed = True
    while changed:
        changed = False
        for s in executed:
            if s in justified:
                continue
            inputs = cb.get(s, set()) | ca.get(s, set())
            by_output = any(inputs & (pb.get(j, set()) | pa.get(j, set())) for j in justified)
            by_creator = crb.get(s) in justified or cra.get(s) in justified
            if by_output or by_creator:
                justified.add(s)
                changed = True
    return [s for s in executed if s not in justified]


def subchecks(tier):
    big = tier == "thorough"
    return [SubCheck("noop_and_cone", check_case, strategy=_cases,
                     examples=160_000 if big else 4_000)]


MANIFEST = {
    "engine": "E1-SimStepUp",
    "technique": "model-based property testing: generated histories ending in success, then a "
                 "no-change restart (nothing may happen) and a source-only edit (executed set "
                 "must lie in the dependency closure computed independently from the tables)",
    "level_text": "Exploration over database states reached by generated histories; exact "
                  "oracle for the no-change part (events, inode/mtime/content, all tables), "
                  "closure oracle for the cone part.",
    "level_note": "restart builds; pure simulated steps; the closure uses dependency, creator "
                  "and nglob tables before and after the rebuild",
}
