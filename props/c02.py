"""C02  The result of a build does not depend on scheduling.

Engine E1. (1) One valid project is built from scratch under several drawn configurations
(job count, resource limits, pump choices and settle modes, i.e. dispatch and completion orders),
then resumed with nothing changed; all graphs must be identical, fact by fact, including creators
and stored hashes. (2) A project with exactly one conflicting pair of declarations made by two
concurrently running plan steps is built under several schedules: the build must fail in every
schedule and the text of the rejection must not depend on which declaration arrived first.
"""

import copy
import os

from hypothesis import strategies as st

from harness import history as H
from harness import specgen
from harness.common import SubCheck, Violation
from props.c01 import check_serve_health

PROPERTY = "C02"
LEVEL = "exploration"
RULE = (
    "(1) a valid spec (shared references between plans: sources declared in the root plan and "
    "consumed from sub-plans, trees/patterns, globs with one step per match, optional chains, "
    "amended inputs/outputs, holds) is built from scratch under 3-4 drawn (njob 1-4, resources, "
    "choices, default settle mode) and once more resumed; oracle: equal return-code class, equal "
    "strict graph projection (all edges incl. dynamic, creators, states, digests, nglob data) "
    "across runs, and the resumed run executes nothing and leaves the graph as it is. (2) the same "
    "spec plus one conflicting pair (static/static, tree/file, nested trees, out/out, out/static, "
    "glob/output, duplicate step) split over two plan steps that run concurrently, 3 schedules "
    "incl. both arrival orders: every run must reject, and the set of rejection texts must be the "
    "same. Non-trivial = two runs had different dispatch orders (pump order differs); distinct by "
    "spec."
)
ASSUMPTIONS = [
    "Simulated steps are deterministic; real process timing is replaced by the generated pump "
    "schedule; the SELECT_NEXT_STEP tie-break (node id) is perturbed only through arrival order.",
]


def _configs(draw, n):
    configs = []
    for _ in range(n):
        configs.append({
            "njob": draw(st.integers(1, 4)),
            "choices": draw(st.lists(st.integers(0, 255), max_size=60)),
            "settle": draw(st.sampled_from([2, 2, 1, 0])),
            "tail": draw(st.sampled_from(["first", "last", "rr"])),
        })
    return configs


@st.composite
def _valid_cases(draw):
    spec = draw(specgen.specs(max_steps=6))
    for sd in spec["steps"].values():
        sd["fail"] = None
    resources = draw(st.sampled_from(["gpu:2,lic:2", "gpu:2,lic:2", "gpu:1,lic:1", None]))
    late = draw(st.sampled_from([None, None, 0, 1, 2, 4]))
    if late is not None:
        spec["static_late"] = late
    return {"spec": spec, "resources": resources, "configs": _configs(draw, draw(st.integers(3, 4)))}


CONFLICTS = ["static_static", "tree_file", "nested_trees", "out_out", "out_static", "glob_output",
             "duplicate_step", "vol_out", "duplicate_tree", "glob_two_products", "out_out_two",
             "static_static_two", "tree_two_files"]


@st.composite
def _conflict_cases(draw):
    spec = draw(specgen.specs(max_steps=4))
    for sd in spec["steps"].values():
        sd["fail"] = None
        sd["resources"] = {}
    plans = spec["plans"]
    if "sub/plan.py" not in plans:
        plans["sub/plan.py"] = {"workdir": "sub", "items": []}
        plans["plan.py"]["items"].insert(0, ["plan", "sub/plan.py"])
    # the sub-plan must start early so that both plans run concurrently
    root_items = plans["plan.py"]["items"]
    root_items.remove(["plan", "sub/plan.py"])
    root_items.insert(0, ["plan", "sub/plan.py"])
    kind = draw(st.sampled_from(CONFLICTS))
    # Dedicated paths that nothing else in the spec declares, matches or lives under: the pair
    # below is the only conflict of the project.
    spec["sources"]["cf/c0.txt"] = "conflict source\n"
    spec["sources"]["cf/deep/c1.txt"] = "conflict source 1\n"

    def step(name, script, workdir, out, vol=()):
        spec["steps"][name] = {"script": script, "args": [], "workdir": workdir, "inp": [],
                               "out": list(out), "vol": list(vol), "env": [], "need": "default",
                               "resources": {}, "amend_inp": [], "amend_out": [],
                               "read_first": False, "fail": None, "partial": False, "variant": 0}

    a, b = plans["plan.py"]["items"], plans["sub/plan.py"]["items"]
    if kind == "static_static":
        a.append(["static_extra", ["cf/c0.txt"]])
        b.append(["static_extra", ["cf/c0.txt"]])
    elif kind == "tree_file":
        a.append(["static_extra", ["cf/deep/"]])
        b.append(["static_extra", ["cf/deep/c1.txt"]])
    elif kind == "nested_trees":
        a.append(["static_extra", ["cf/"]])
        b.append(["static_extra", ["cf/deep/"]])
    elif kind == "duplicate_tree":
        a.append(["static_extra", ["cf/deep/"]])
        b.append(["static_extra", ["cf/deep/"]])
    elif kind == "glob_two_products":
        # two products of one step match the pattern, the volatile one sorts first; both exist
        # on disk already, so the pattern is refused in either order and must name the same path
        first, second = draw(st.sampled_from([("clash/a.out", "clash/z.out"),
                                               ("clash/z.out", "clash/a.out")]))
        spec["sources"][first] = "left over 1\n"
        spec["sources"][second] = "left over 2\n"
        step("ca", "ca.py", ".", [first], [second])
        a.append(["step", "ca"])
        b.append(["glob_only", "clash/*.out"])
    elif kind == "out_out_two":
        step("ca", "ca.py", ".", ["clash/m.out", "clash/b.out"])
        step("cb", "sub/cb.py", "sub", ["clash/b.out", "clash/m.out", "clash/q.out"])
        a.append(["step", "ca"])
        b.append(["step", "cb"])
    elif kind == "static_static_two":
        a.append(["static_extra", ["cf/deep/c1.txt", "cf/c0.txt"]])
        b.append(["static_extra", ["cf/c0.txt", "cf/deep/c1.txt"]])
    elif kind == "tree_two_files":
        spec["sources"]["cf/deep/c2.txt"] = "conflict source 2\n"
        a.append(["static_extra", ["cf/deep/"]])
        b.append(["static_extra", ["cf/deep/c2.txt", "cf/deep/c1.txt"]])
    elif kind == "out_out":
        step("ca", "ca.py", ".", ["clash/x.out"])
        step("cb", "sub/cb.py", "sub", ["clash/x.out"])
        a.append(["step", "ca"])
        b.append(["step", "cb"])
    elif kind == "vol_out":
        step("ca", "ca.py", ".", [], ["clash/x.out"])
        step("cb", "sub/cb.py", "sub", ["clash/x.out"])
        a.append(["step", "ca"])
        b.append(["step", "cb"])
    elif kind == "out_static":
        step("ca", "ca.py", ".", ["cf/c0.txt"])
        a.append(["step", "ca"])
        b.append(["static_extra", ["cf/c0.txt"]])
    elif kind == "glob_output":
        step("ca", "ca.py", ".", ["clash/x.out"])
        a.append(["step", "ca"])
        b.append(["glob_only", "clash/*.out"])
    elif kind == "duplicate_step":
        step("ca", "ca.py", ".", ["clash/dup_a.out"])
        a.append(["step", "ca"])
        b.append(["step_raw", {"cmd": "./ca.py", "inp": [], "out": ["clash/dup_b.out"],
                               "workdir": ".", "need": "default"}])
    # Relative durations are part of the schedule: each configuration pauses the two plans for a
    # different number of turns before their last (conflicting) declaration. The first two
    # configurations lean towards opposite arrival orders, the third is free.
    pads = [(0, draw(st.integers(3, 8))), (draw(st.integers(3, 8)), 0),
            (draw(st.integers(0, 2)), draw(st.integers(0, 2)))]
    return {"spec": spec, "kind": kind, "resources": None,
            "configs": [{"njob": draw(st.integers(2, 4)),
                         "choices": draw(st.lists(st.integers(0, 255), max_size=40)),
                         "settle": draw(st.sampled_from([2, 2, 1])),
                         "tail": ["first", "last", "rr"][k] if draw(st.integers(0, 3)) else
                         draw(st.sampled_from(["first", "last", "rr"])),
                         "pads": list(pads[k])} for k in range(3)]}


def _padded(spec, pads):
    spec = copy.deepcopy(spec)
    for plan, pad in zip(("plan.py", "sub/plan.py"), pads):
        items = spec["plans"][plan]["items"]
        for _ in range(pad):
            items.insert(len(items) - 1, ["pause"])
    return spec


async def build_once(spec, cfg, resources, ctx):
    d = ctx.scratch.fresh("sched")
    os.chdir(d)
    ledger = H.Ledger()
    build = {"njob": cfg["njob"], "choices": cfg["choices"], "resources": resources,
             "keep_going": False, "do_clean": True}
    def session_setup(session):
        session.pump.tail = cfg.get("tail", "first")

    rec, user_files = await H.run_stage(spec, build, ledger, set(),
                                        default_settle=cfg["settle"], session_setup=session_setup)
    return rec, d, ledger, user_files


async def check_valid(case, rec, ctx):
    dirs = []
    try:
        runs = []
        for cfg in case["configs"]:
            r, d, ledger, user_files = await build_once(case["spec"], cfg, case["resources"], ctx)
            dirs.append(d)
            check_serve_health(PROPERTY, r, f"schedule {len(runs)}")
            runs.append((r, d, ledger, user_files))
        classes = [H.returncode_class(r.result.returncode) for r, *_ in runs]
        rec.event("rc:" + classes[0])
        if len(set(classes)) != 1:
            raise Violation(
                f"{PROPERTY}/success-depends-on-schedule",
                f"return codes {classes} for configurations "
                f"{[(c['njob'], c['settle']) for c in case['configs']]}; rejections "
                f"{[r.result.rejections for r, *_ in runs]}",
            )
        if classes[0] != "OK":
            return
        graphs = [H.project_graph(r.result.tables, strict=True) for r, *_ in runs]
        for k in range(1, len(graphs)):
            if graphs[k] != graphs[0]:
                raise Violation(
                    f"{PROPERTY}/graph-depends-on-schedule",
                    f"njob/settle {case['configs'][0]['njob']}/{case['configs'][0]['settle']} vs "
                    f"{case['configs'][k]['njob']}/{case['configs'][k]['settle']}:\n"
                    + H.diff_facts(graphs[0], graphs[k], "schedule 0", f"schedule {k}"),
                )
        # resumed from a valid database with nothing changed
        r0, d0, ledger0, user_files0 = runs[-1]
        os.chdir(d0)
        cfg = case["configs"][0]
        build = {"njob": cfg["njob"], "choices": cfg["choices"], "resources": case["resources"],
                 "keep_going": False, "do_clean": True}
        resumed, _ = await H.run_stage(case["spec"], build, ledger0, user_files0)
        check_serve_health(PROPERTY, resumed, "resumed")
        g = H.project_graph(resumed.result.tables, strict=True)
        if g != graphs[0]:
            raise Violation(f"{PROPERTY}/graph-changes-when-resumed",
                            H.diff_facts(graphs[0], g, "fresh", "resumed"))
        orders = {tuple(r.result.pump_order) for r, *_ in runs}
        starts = {tuple(r.result.commands) for r, *_ in runs}
        if len(orders) > 1 or len(starts) > 1:
            rec.mark_nontrivial(case["spec"], sample={
                "configs": [(c["njob"], c["settle"], len(c["choices"])) for c in case["configs"]],
                "start_orders": [list(s)[:8] for s in starts][:3]})
        rec.event("distinct-start-orders=%d" % min(len(starts), 4))
        if "static_late" in case["spec"]:
            early = {_defined_before_late_static(r.result.steplog) for r, *_ in runs}
            rec.event("late-static:" + ("reference-before-and-after-declaration"
                                        if len(early) > 1 else "same-order-in-all-runs"))
    finally:
        os.chdir(ctx.scratch.root)
        for d in dirs:
            H.cleanup_dir(ctx, d)


async def check_conflict(case, rec, ctx):
    dirs = []
    try:
        outcomes, logs = [], []
        for cfg in case["configs"]:
            r, d, _, _ = await build_once(_padded(case["spec"], cfg["pads"]), cfg, None, ctx)
            dirs.append(d)
            check_serve_health(PROPERTY, r, f"schedule {len(outcomes)}")
            texts = sorted({msg for _lbl, _op, _cls, msg in r.result.rejections})
            rejected_by = sorted({lbl for lbl, _op, _cls, _msg in r.result.rejections})
            outcomes.append((H.returncode_class(r.result.returncode), texts, rejected_by))
            logs.append(r.result.steplog)
        rec.event("kind:" + case["kind"])
        failed = ["FAILED" in rc for rc, _, _ in outcomes]
        if not all(failed):
            accepted = [log for log, f in zip(logs, failed) if not f]
            if case["kind"] == "glob_output" and all(_glob_in_window(log) for log in accepted):
                # Root-cause refinement (recorded finding): the pattern arrived after the step
                # that builds a matching path was defined and before that path existed.
                raise Violation(
                    f"{PROPERTY}/glob-accepted-when-registered-between-declaration-and-creation-"
                    "of-a-matching-output",
                    f"outcomes over three schedules {[(rc, who) for rc, _, who in outcomes]}",
                )
            sig = "conflict-accepted-in-one-order" if any(failed) else "conflict-never-rejected"
            raise Violation(
                f"{PROPERTY}/{sig}/{case['kind']}",
                f"{case['kind']}: outcomes {[(rc, who) for rc, _, who in outcomes]}",
            )
        texts = {tuple(t) for _, t, _ in outcomes}
        who = {tuple(w) for _, _, w in outcomes}
        if len(texts) != 1:
            raise Violation(
                f"{PROPERTY}/error-text-depends-on-arrival-order/{case['kind']}",
                f"{case['kind']}: " + " || ".join(
                    f"rejected {w}: {t}" for _, t, w in outcomes),
            )
        if len(who) > 1:
            rec.mark_nontrivial([case["spec"], case["kind"]],
                                sample={"kind": case["kind"], "rejected_in_turn": sorted(who),
                                        "text": outcomes[0][1]})
            rec.event("both-orders-seen")
    finally:
        os.chdir(ctx.scratch.root)
        for d in dirs:
            H.cleanup_dir(ctx, d)


def _defined_before_late_static(log):
    """Commands (with data inputs) defined before the last static declaration of the root plan."""
    statics = [e["t"] for e in log if e["op"] == "static" and e["label"] == "./plan.py"]
    if not statics:
        return frozenset()
    return frozenset(e["cmd"] for e in log
                     if e["op"] == "define" and e["t"] < max(statics) and len(e["spec"]["inp"]) > 1)


def _glob_in_window(log):
    """The glob request came after the definition of the step with the matching output, and its
    scan did not see that output on disk yet."""
    t_def = [e["t"] for e in log if e["op"] == "define" and "clash/x.out" in e["spec"].get("out", [])]
    globs = [e for e in log if e["op"] == "glob" and e["pattern"] == "clash/*.out"]
    return bool(t_def and globs) and all(
        g["t"] > min(t_def) and "clash/x.out" not in g["matches"] for g in globs)


def subchecks(tier):
    big = tier == "thorough"
    return [
        SubCheck("schedules", check_valid, strategy=_valid_cases,
                 examples=60_000 if big else 3_000),
        SubCheck("conflicts", check_conflict, strategy=_conflict_cases,
                 examples=60_000 if big else 3_000),
    ]


MANIFEST = {
    "engine": "E1-SimStepUp",
    "technique": "metamorphic property testing: the same project under several generated "
                 "schedules/configurations must give fact-identical graphs; conflicting "
                 "declarations under both arrival orders must give identical error text",
    "level_text": "Exploration of schedules with a harness-owned scheduler; exact equality "
                  "oracle on the full graph projection and on rejection texts.",
    "level_note": "schedule = pump choices + settle mode + njob + resources; hash threads are "
                  "real threads",
}
