"""C09  The stored workflow satisfies its invariants after every transaction.

Engine E1 with `harness.instrument`: the tables are dumped inside every committing transaction
of generated histories (valid plans, edits between builds, failing steps, holds, targets,
restarts on the same database) mixed with "chaos" requests, i.e. declarations drawn from a small
universe of paths of which most collide with something and are rejected. Each dump is judged by
an independent Python statement of the invariants (`harness.invariants.wellformed`), each pair
of consecutive dumps by the documented moves of steps and files (`harness.invariants.moves`),
and no request or build may end in an internal error.
"""

import os

from harness import history as H
from harness import invariants as inv
from harness import specgen
from harness.common import SubCheck, Violation
from harness.instrument import Instrument
from props.c01 import check_serve_health

PROPERTY = "C09"
LEVEL = "exploration"
RULE = (
    "Histories of 1-3 builds on one database (restart between builds) from the feature-dense "
    "generator (optional/failing steps, holds, resources, targets, keep-going, drawn schedules, "
    "edits that detach and recycle nodes) with 1-4 chaos requests per build in 4 of 5 builds "
    "(static files/trees/patterns, steps, globs, amend, hold/release with arguments from a "
    "universe of sources, declared outputs, directories, reserved and new paths; 3 of 4 wrapped "
    "so that the plan survives the rejection). An evaluation is one committed transaction. "
    "Oracle per commit: detached <=> unreachable from the root via creators; creator kinds; "
    "dependency edges only file->step, step->file, tree->file and acyclic; UNDECLARED or "
    "creator-less file => detached; attached SUCCEEDED step => attached outputs BUILT/VOLATILE; "
    "hash present for CONFIRMED/BUILT/OUTDATED and absent for MISSING/PLANNED/VOLATILE; deferred "
    "=> PENDING; _holding => RUNNING; _has_hash <=> step_hash row; rows and nodes paired; per "
    "consecutive pair: step moves only along PENDING->RUNNING/CHECKING, CHECKING->SUCCEEDED/"
    "PENDING, RUNNING->SUCCEEDED/FAILED/PENDING, SUCCEEDED/FAILED->PENDING (restart may reset "
    "RUNNING/CHECKING); a file keeps its role while attached under the same creator; an output "
    "becomes BUILT only with its producer SUCCEEDED. Plus: no request ends in a non-usage error, "
    "serve() does not raise, no ERROR report. Non-trivial = a build with a rejected request, a "
    "failed step or an edit; distinct by (history, stage)."
)
ASSUMPTIONS = [
    "The step moves are derived from the StepState docstrings and Step.mark_completed (there is "
    "no transition table in the repository); they are compared only for a node that stays "
    "attached under the same creator, so re-declaration is not judged.",
    "Requests reach the handler as a client would send them after its own path normalisation "
    "(C20 covers that part); argument types are always the declared ones.",
]


async def check_case(case, rec, ctx):
    d = None
    instruments = []

    def session_setup(session):
        ins = Instrument(wellformed=True, dispatch=False)
        if instruments:
            ins.prev = instruments[-1].prev  # the restart boundary is judged too
            ins.first = True
        ins.install(session)
        instruments.append(ins)

    def after_stage(i, r, ledger):
        ins = instruments[-1]
        rec.evaluations += ins.counts["commits"]
        rec.count("commits", ins.counts["commits"])
        rec.count("rejected_requests", len(r.result.rejections))
        for _lbl, op, cls, _msg in r.result.rejections:
            rec.event(f"rejected:{op}:{cls}")
        for obs, n in ins.observations.items():
            rec.event("observation:" + obs)
        for a, b in ins.seen_moves:
            rec.event(f"step-move:{inv.STEP_NAMES.get(a)}>{inv.STEP_NAMES.get(b)}")
        if r.result.observer_failures:
            raise Violation(f"{PROPERTY}/observer-failed", str(r.result.observer_failures[0])[:3000])
        if ins.findings:
            sig, msg = ins.findings[0]
            raise Violation(
                f"{PROPERTY}/{sig}",
                f"stage {i}: {msg}; chaos {case['stages'][i].get('chaos')}; edits "
                f"{[s['edit'] for s in case['stages']]}; rejections {r.result.rejections[:3]}")
        check_serve_health(PROPERTY, r, i)
        stage = case["stages"][i]
        if r.result.rejections or i > 0 or "FAILED" in H.returncode_class(r.result.returncode):
            rec.mark_nontrivial([stage["spec"], stage["build"], i],
                                sample={"stage": i, "edit": stage["edit"],
                                        "chaos": stage.get("chaos"),
                                        "commits": ins.counts["commits"],
                                        "rejected": [(x[1], x[2]) for x in
                                                     r.result.rejections[:4]]})
        rec.event("rc:" + H.returncode_class(r.result.returncode))

    try:
        try:
            rec.evaluations -= 1  # evaluations are counted per commit
            records, ledger, d = await H.run_history(case, ctx, after_stage=after_stage,
                                                     session_setup=session_setup)
        finally:
            d = d or os.getcwd()
        if instruments and instruments[-1].findings:
            # the build was aborted at the first finding (records[-1] has a serve error then)
            sig, msg = instruments[-1].findings[0]
            i = len(records) - 1
            raise Violation(f"{PROPERTY}/{sig}",
                            f"stage {i}: {msg}; chaos {case['stages'][i].get('chaos')}; edits "
                            f"{[s['edit'] for s in case['stages']]}")
        for i, r in enumerate(records):
            check_serve_health(PROPERTY, r, i)
    finally:
        if d:
            H.cleanup_dir(ctx, d)


def subchecks(tier):
    big = tier == "thorough"
    return [
        SubCheck("commits", check_case, strategy=specgen.chaos_histories,
                 examples=120_000 if big else 3_000),
    ]


MANIFEST = {
    "engine": "E1-SimStepUp + commit instrumentation",
    "technique": "stateful property testing over generated request histories (valid and invalid "
                 "requests, builds, edits, restarts) with an invariant evaluated after every "
                 "committed transaction and a transition relation over consecutive commits",
    "level_text": "Exploration; every commit of every generated build is an assertion point "
                  "(hundreds of thousands per quick run); invariants re-stated in Python over "
                  "raw table dumps.",
    "level_note": "requests through the DirectorHandler methods of a real serve(); small "
                  "universes sampled, not enumerated exhaustively",
}
