"""C03  A step only succeeds on inputs that were final while it ran.

Engine E1. Producers write their outputs in two phases (a transient content, a turn point, the
final content), consumers read before and after `amend`, the schedule interleaves producer
completion, consumer start and amend, and the harness (as the user) may modify a static input at
a drawn moment of the build. Judged from the simulated-step log and the final tables.
"""

import os

from hypothesis import strategies as st

from harness import history as H
from harness import specgen
from harness.common import SubCheck, Violation
from props.c01 import check_serve_health

PROPERTY = "C03"
LEVEL = "exploration"
RULE = (
    "Specs with chains through built and amended inputs (every producer writes partial content "
    "first, consumers peek before amend with p=1/2), njob 2-4, drawn schedules incl. racing "
    "settle modes, optionally one external rewrite of a static input at a drawn decision index. "
    "(a) at every command start each initial input is attached, BUILT/CONFIRMED and its producer "
    "is not running; (b) for every step left SUCCEEDED by a command of this build, each digest "
    "that command read from one of its final inputs equals the digest recorded for the file at "
    "the end of the build, and the producer's last command ended before the consumer's command "
    "started; (c) a drain announced for changed inputs comes with the FAILED and DRAINED bits and "
    "no command starts after the failing command ended. Non-trivial = a consumer's command "
    "overlapped its producer's in some attempt (a DEFERRED event), or the external change landed "
    "while a command was running; distinct by spec+schedule."
)
ASSUMPTIONS = [
    "Freshness is judged on the harness's logical clock (log order); StepUp uses monotonic_ns "
    "with ties counted as overlap, which is the conservative direction.",
]


@st.composite
def _cases(draw):
    spec = draw(specgen.specs(max_steps=6))
    names = sorted(spec["steps"])
    produced = []
    for n in names:
        sd = spec["steps"][n]
        sd["fail"] = None
        sd["partial"] = True
        sd["resources"] = {}
        sd["need"] = "default" if sd["amend_out"] else sd["need"]
        if n in ("conv",):
            continue
        pool = [p for p, m in produced if m < n and p not in sd["inp"]]
        if pool and draw(st.booleans()):
            sd["amend_inp"] = sorted(set(sd["amend_inp"]) | {draw(st.sampled_from(pool))})
            sd["read_first"] = draw(st.booleans())
        for p in sd["out"]:
            produced.append((p, n))
    build = specgen.build_config(draw, final=True, resources=None)
    build["njob"] = draw(st.integers(2, 4))
    build["choices"] = draw(st.lists(st.integers(0, 255), max_size=80))
    build["keep_going"] = draw(st.booleans())
    external = None
    used = sorted({p for sd in spec["steps"].values() for p in sd["inp"] + sd["amend_inp"]
                   if p in spec["sources"]})
    if used and draw(st.integers(0, 2)) == 0:
        external = [draw(st.integers(0, 40)), draw(st.sampled_from(used))]
    return {"stages": [{"edit": ["initial"], "spec": spec, "build": build}], "external": external}


def judge(r, case, rec, state):
    from stepup.core.enums import FileState, StepState
    from stepup.core.hash import FileHash

    log = r.result.steplog
    tables = r.result.tables
    if tables is None:
        return
    nodes = {n["i"]: n for n in tables["node"]}
    files = {f["node"]: f for f in tables["file"]}
    steps = {s["node"]: s for s in tables["step"]}
    recorded = {}
    for i, f in files.items():
        if f["hash"] is not None:
            recorded[nodes[i]["label"]] = FileHash.from_json(f["hash"]).digest.hex()
    producers = {}  # path -> producer label
    final_inputs = {}  # step label -> set of input paths (attached edges)
    for dep in tables["dependency"]:
        src, snk = dep["source"], dep["sink"]
        if src in steps and snk in files:
            producers[nodes[snk]["label"]] = nodes[src]["label"]
        elif src in files and snk in steps:
            final_inputs.setdefault(nodes[snk]["label"], set()).add(nodes[src]["label"])
    runs = {}  # job -> dict
    running_now = {}
    ext_time = None
    for e in log:
        if e["op"] == "start":
            runs[e["job"]] = {"label": e["label"], "start": e["t"], "end": None, "rc": None,
                              "reads": [], "inputs": e.get("inputs")}
            running_now[e["label"]] = e["job"]
            # (a) inputs at command start
            for path, fstate, detached, dynamic in e.get("inputs") or []:
                if dynamic:
                    continue
                if detached or fstate not in (FileState.BUILT.value, FileState.CONFIRMED.value):
                    raise Violation(
                        f"{PROPERTY}/command-started-with-unavailable-input",
                        f"{e['label']!r} started at t={e['t']} while its input {path} is "
                        f"{FileState(fstate).name}{' (detached)' if detached else ''}",
                    )
                prod = producers.get(path)
                if prod is not None and prod in e["running"] and prod != e["label"]:
                    raise Violation(
                        f"{PROPERTY}/command-started-while-producer-running",
                        f"{e['label']!r} started at t={e['t']} while {prod!r}, which builds its "
                        f"input {path}, is running",
                    )
        elif e["op"] == "read" and e["job"] in runs:
            runs[e["job"]]["reads"].append((e["path"], e["sha"], e["t"]))
        elif e["op"] == "end" and e["job"] in runs:
            runs[e["job"]]["end"] = e["t"]
            runs[e["job"]]["rc"] = e["returncode"]
        elif e["op"] == "external":
            ext_time = e["t"]
    last_run = {}
    for job, run in sorted(runs.items()):
        last_run[run["label"]] = run
    ok_runs = {}
    for job, run in sorted(runs.items()):
        if run["rc"] == 0:
            ok_runs[run["label"]] = run
    for i, s in steps.items():
        label = nodes[i]["label"]
        if nodes[i]["detached"] or s["state"] != StepState.SUCCEEDED.value:
            continue
        run = last_run.get(label)
        if run is None:
            continue  # not executed in this build
        if run["rc"] != 0:
            raise Violation(f"{PROPERTY}/succeeded-after-failing-command",
                            f"{label!r} is SUCCEEDED but its last command exited {run['rc']}")
        inputs = final_inputs.get(label, set())
        for path, digest, t in run["reads"]:
            if path not in inputs:
                continue
            if recorded.get(path) != digest:
                raise Violation(
                    f"{PROPERTY}/succeeded-on-content-that-is-not-final",
                    f"{label!r} is SUCCEEDED; its command (t={run['start']}..{run['end']}) read "
                    f"{path} with digest {digest[:10]} at t={t}, but the digest recorded at the "
                    f"end of the build is {str(recorded.get(path))[:10]}",
                )
            prod = producers.get(path)
            prun = ok_runs.get(prod) if prod else None
            if prun is not None and prun["end"] is not None and prun["end"] > run["start"] \
                    and prod != label:
                raise Violation(
                    f"{PROPERTY}/succeeded-although-producer-overlapped",
                    f"{label!r} (t={run['start']}..{run['end']}) is SUCCEEDED although {prod!r}, "
                    f"which builds its input {path}, ran until t={prun['end']}",
                )
    deferred = r.result.tags("DEFERRED")
    if deferred:
        state["nontrivial"] = True
        rec.event("deferred-seen")
    if ext_time is not None:
        inside = any(run["start"] < ext_time and (run["end"] is None or run["end"] > ext_time)
                     for run in runs.values())
        rec.event("external:" + ("inside-run" if inside else "between-runs"))
        if inside:
            state["nontrivial"] = True
    drained_for_inputs = any(t == "ERROR" and "unexpected input changes" in d
                             for t, d, _ in r.result.events)
    if drained_for_inputs:
        from stepup.core.enums import ReturnCode

        rc = r.result.returncode
        # The step that saw the change fails (FAIL event) and dispatch stops (DRAINED bit).
        # The FAILED bit is not required: a second consumer that notices the same change makes
        # the first one pending again, which C19 accounts for.
        if not (rc & ReturnCode.DRAINED) or not r.result.tags("FAIL"):
            raise Violation(f"{PROPERTY}/input-change-without-fail-and-drain",
                            f"drain announced, return code {rc!r}, FAIL events "
                            f"{r.result.tags('FAIL')}")
        rec.event("drained-for-input-change")


async def check_case(case, rec, ctx):
    d = ctx.scratch.fresh("proj")
    os.chdir(d)
    state = {"nontrivial": False}
    try:
        ledger = H.Ledger()
        stage = case["stages"][0]

        def session_setup(session):
            session.record_inputs_at_start = True
            if case.get("external"):
                k, path = case["external"]

                def action():
                    if os.path.isfile(path):
                        with open(path, "a") as fh:
                            fh.write("modified during the build\n")
                        session.log(op="external", path=path)
                session.pump.actions[k] = action

        r, _ = await H.run_stage(stage["spec"], stage["build"], ledger, set(),
                                 session_setup=session_setup)
        check_serve_health(PROPERTY, r, 0)
        judge(r, case, rec, state)
        rec.event("rc:" + H.returncode_class(r.result.returncode))
        if state["nontrivial"]:
            rec.mark_nontrivial([stage["spec"], stage["build"], case.get("external")],
                                sample={"external": case.get("external"),
                                        "njob": stage["build"]["njob"],
                                        "order": r.result.pump_order[:30],
                                        "events": [(t, d_) for t, d_, _ in r.result.events
                                                   if t in ("START", "DEFERRED", "FAIL",
                                                            "SUCCESS")][:30]})
    finally:
        H.cleanup_dir(ctx, d)


def subchecks(tier):
    big = tier == "thorough"
    return [SubCheck("final_inputs", check_case, strategy=_cases,
                     examples=240_000 if big else 6_000)]


MANIFEST = {
    "engine": "E1-SimStepUp",
    "technique": "property-based testing over generated schedules and injected external "
                 "changes: per-command read log (path, digest, logical time) against the digests "
                 "recorded at the end of the build and against producer run windows",
    "level_text": "Exploration of interleavings of producer completion, consumer start, amend "
                  "and external modification with a harness-owned scheduler; oracle on what each "
                  "successful command actually read.",
    "level_note": "logical clock; two-phase writes make a read during the producer's run "
                  "distinguishable",
}
