"""C10  Dispatch is exact: nothing ineligible starts, nothing eligible is left.

Engine E1 with the instrumentation of `harness.instrument`: every transaction of
`Scheduler.pop_next_job` is a decision point. At each one the cached scheduling attributes of all
attached steps are compared with their definitions, recomputed in plain Python from the raw
tables (`harness.invariants.definitions`), the dispatched step (if any) must be eligible by
definition, and a decision that dispatches nothing must have had no eligible step. When the job
loop ends without draining, no step may satisfy the dispatch conditions. A second sub-check
drives a step through a generated number of deferrals against a generated defer cap.
"""

import os

from hypothesis import strategies as st

from harness import history as H
from harness import specgen
from harness.common import SubCheck, Violation
from harness.instrument import Instrument
from props.c01 import check_serve_health

PROPERTY = "C10"
LEVEL = "exploration"
RULE = (
    "(dispatch) feature-dense histories (1-3 builds; optional steps, failing steps, hold blocks "
    "incl. nested/unreleased, named resources incl. undefined ones, file and directory targets, "
    "keep-going, njob 1-4, drawn pump schedules, edits between builds that detach/recycle nodes). "
    "An evaluation is one dispatch decision. Oracle per decision: _safe, _safe_ignoring_hold, "
    "_implied_need, _ready of every attached step equal their definitions and no _check_* flag is "
    "left; the dispatched step is PENDING, attached, needed above the threshold, not deferred, "
    "has creators RUNNING/SUCCEEDED and not holding (a hash-checkable step may pass a hold, as "
    "documented), all inputs available, resources defined and free (RUNNING only); no eligible "
    "step exists when nothing is dispatched; at the end of a non-draining job loop no step is "
    "eligible and none is in flight. Non-trivial = a decision with >= 2 pending attached steps "
    "of which at least one is ineligible; distinct by (history, decision index). (defer_cap) a "
    "consumer that announces k inputs one by one, each built by its own optional step, with "
    "cap c in 1..3: the build terminates, the consumer starts min(k, c) + 1 times and ends "
    "FAILED iff k > c; distinct by (k, c, njob, schedule). (swallowed_amend) 8 enumerated "
    "projects whose plan ignores a refused amend() of a missing path and then (or not) declares "
    "the directory of that path a static tree, keep-going on/off, cap 1-2: the build must end."
)
ASSUMPTIONS = [
    "The definitions are those written in scheduler.py/step.py comments (FILL_SAFE_UPDATE, "
    "UPDATE_CHECK_AFTER, UNAVAILABLE_INPUT_WHERE, RESOURCE_UNAVAILABLE); they are re-implemented "
    "in Python over a dump of the raw tables, not by re-running the SQL.",
    "Which eligible step is chosen (priority order) is not part of the property.",
]


def _nontrivial_decision(view_steps):
    return True


async def check_dispatch(case, rec, ctx):
    d = None
    instruments = []

    def session_setup(session):
        ins = Instrument(wellformed=False, dispatch=True)
        ins.install(session)
        instruments.append(ins)

    def after_stage(i, r, ledger):
        check_serve_health(PROPERTY, r, i)
        ins = instruments[-1]
        rec.evaluations += ins.counts["decisions"]
        rec.count("decisions", ins.counts["decisions"])
        rec.count("dispatches", ins.counts["dispatches"])
        rec.count("empty_decisions", ins.counts["empty_decisions"])
        rec.count("phase_ends", ins.counts["phase_ends"])
        if r.result.observer_failures:
            raise Violation(f"{PROPERTY}/observer-failed", str(r.result.observer_failures[0])[:3000])
        if ins.findings:
            sig, msg = ins.findings[0]
            raise Violation(f"{PROPERTY}/{sig}",
                            f"stage {i} (njob={r.config.get('njob')}, resources="
                            f"{r.config.get('resources')}, targets={r.config.get('targets')}): "
                            f"{msg}; edits {[s['edit'] for s in case['stages']]}")
        if ins.counts["dispatches"] >= 2 and ins.counts["empty_decisions"] >= 1:
            rec.mark_nontrivial([case["stages"][i]["spec"], case["stages"][i]["build"], i],
                                sample={"stage": i, "decisions": ins.counts["decisions"],
                                        "dispatches": ins.counts["dispatches"],
                                        "njob": r.config.get("njob"),
                                        "resources": r.config.get("resources"),
                                        "targets": r.config.get("targets")})
        rec.event("rc:" + H.returncode_class(r.result.returncode))

    try:
        try:
            rec.evaluations -= 1  # evaluations are counted per decision, not per history
            records, ledger, d = await H.run_history(case, ctx, after_stage=after_stage,
                                                     session_setup=session_setup)
        finally:
            d = d or os.getcwd()
        if instruments and instruments[-1].findings:
            # the build was aborted at the first finding (records[-1] has a serve error then)
            sig, msg = instruments[-1].findings[0]
            i = len(records) - 1
            raise Violation(f"{PROPERTY}/{sig}",
                            f"stage {i}: {msg}; chaos {case['stages'][i].get('chaos')}; edits "
                            f"{[s['edit'] for s in case['stages']]}")
        for i, r in enumerate(records):
            check_serve_health(PROPERTY, r, i)
    finally:
        if d:
            H.cleanup_dir(ctx, d)


# ---------------------------------------------------------------------------------------------
# defer cap


@st.composite
def _defer_cases(draw):
    k = draw(st.integers(1, 5))
    cap = draw(st.integers(1, 3))
    steps = {}
    items = []
    sources = {"src/s0.txt": "s0\n"}
    for j in range(k):
        steps[f"p{j}"] = {"script": f"p{j}.py", "args": [], "workdir": ".", "inp": ["src/s0.txt"],
                          "out": [f"gen/d{j}.out"], "vol": [], "env": [], "need": "optional",
                          "resources": {}, "amend_inp": [], "amend_out": [],
                          "read_first": False, "fail": None, "partial": False, "variant": 0}
        items.append(["step", f"p{j}"])
    steps["x"] = {"script": "x.py", "args": [], "workdir": ".", "inp": ["src/s0.txt"],
                  "out": ["out/x.out"], "vol": [], "env": [], "need": "default", "resources": {},
                  "amend_inp": [f"gen/d{j}.out" for j in range(k)], "amend_out": [],
                  "amend_seq": True, "read_first": False, "fail": None, "partial": False,
                  "variant": 0}
    pos = draw(st.integers(0, len(items)))
    items.insert(pos, ["step", "x"])
    spec = {"sources": sources, "steps": steps, "env": {},
            "plans": {"plan.py": {"workdir": ".", "items": items}},
            "static_style": {"src/": draw(st.sampled_from(["files", "tree"]))}}
    build = {"njob": draw(st.integers(1, 3)), "keep_going": draw(st.booleans()),
             "do_clean": True, "resources": None, "defer_cap": cap,
             "choices": draw(st.lists(st.integers(0, 255), max_size=30))}
    return {"k": k, "cap": cap, "spec": spec, "build": build}


async def check_defer(case, rec, ctx):
    d = ctx.scratch.fresh("defer")
    os.chdir(d)
    try:
        ledger = H.Ledger()
        r, _ = await H.run_stage(case["spec"], case["build"], ledger, set())
        check_serve_health(PROPERTY, r, 0)  # a build that does not end is reported there
        k, cap = case["k"], case["cap"]
        keep_going = case["build"]["keep_going"]
        outcomes = [t for t, desc, _ in r.result.events
                    if desc == "./x.py" and t in ("DEFERRED", "FAIL", "SUCCESS", "RESCHEDULE")]
        starts = r.result.commands.count("./x.py")
        states = H.step_states(r.result.tables)
        state = states.get("./x.py", (None, None))[0]
        rc = H.returncode_class(r.result.returncode)
        rec.event(f"k={k},cap={cap},keep_going={int(keep_going)}")
        # The i-th run that announces an unavailable input is deferred while i <= cap and fails
        # from then on (the counter is only reset by a success). Without --keep-going the first
        # failure drains the build; with it, the failed consumer is retried whenever another of
        # its announced inputs gets built, so it fails k - cap times and finally succeeds.
        want = ["DEFERRED" if i <= cap else "FAIL" for i in range(1, k + 1)] + ["SUCCESS"]
        if not keep_going and k > cap:
            want = want[:cap + 1]
        if outcomes != want:
            raise Violation(
                f"{PROPERTY}/defer-cap-not-applied",
                f"{k} inputs announced one by one, --defer-cap={cap}, keep_going={keep_going}: "
                f"outcomes of the consumer {outcomes}, expected {want}",
            )
        if starts != len(want):
            raise Violation(
                f"{PROPERTY}/defer-count-wrong",
                f"{k} announced inputs, --defer-cap={cap}: consumer started {starts} times, "
                f"expected {len(want)}",
            )
        want_state = 24 if want[-1] == "FAIL" else 23
        if state != want_state:
            raise Violation(f"{PROPERTY}/defer-cap-final-state",
                            f"k={k} cap={cap} keep_going={keep_going}: consumer ended in state "
                            f"{state}, expected {want_state}")
        rec.mark_nontrivial([k, cap, case["build"]["njob"], case["build"]["choices"]],
                            sample={"k": k, "cap": cap, "starts": starts, "rc": rc})
    finally:
        os.chdir(ctx.scratch.root)
        H.cleanup_dir(ctx, d)


# ---------------------------------------------------------------------------------------------
# a plan that carries on after a failed amend()


def _swallow_cases(ctx):
    cases = []
    for keep_going in (False, True):
        for cap in (1, 2):
            for tree_after in (True, False):
                cases.append({"keep_going": keep_going, "cap": cap, "tree_after": tree_after,
                              "njob": 1 + (cap % 2)})
    return [c for k, c in enumerate(cases) if k % ctx.nworkers == ctx.worker]


async def check_swallow(case, rec, ctx):
    """The plan announces an input that does not exist, ignores the refusal (a script that
    catches InputNotFoundError) and, optionally, then declares the directory of that path a
    static tree. Whatever the plan does, the build has to end, and the plan may not be started
    more than cap + 1 times in a row without anything else happening."""
    d = ctx.scratch.fresh("swallow")
    os.chdir(d)
    try:
        items = [["chaos", ["amend_swallow", {"inp": ["cz/missing.txt"]}]]]
        if case["tree_after"]:
            items.append(["chaos", ["static_raw", ["cz/"], [], []]])
        spec = {"sources": {"cz/keep.txt": "keep\n"}, "steps": {}, "env": {},
                "plans": {"plan.py": {"workdir": ".", "items": items}}, "static_style": {}}
        build = {"njob": case["njob"], "keep_going": case["keep_going"], "do_clean": True,
                 "resources": None, "defer_cap": case["cap"], "choices": []}
        r, _ = await H.run_stage(spec, build, H.Ledger(), set(), timeout=6.0)
        starts = r.result.commands.count("./plan.py")
        rec.event(f"swallow:keep_going={int(case['keep_going'])},tree_after="
                  f"{int(case['tree_after'])}")
        if r.result.timed_out:
            if starts > case["cap"] + 5:
                raise Violation(
                    f"{PROPERTY}/build-does-not-terminate/failed-step-restarted-by-its-own-"
                    "static-tree",
                    f"--defer-cap={case['cap']}, keep_going={case['keep_going']}: the plan was "
                    f"started {starts} times in 6 s and the build phase did not end")
            check_serve_health(PROPERTY, r, 0)
        check_serve_health(PROPERTY, r, 0)
        if starts > case["cap"] + 2:
            raise Violation(f"{PROPERTY}/defer-cap-not-applied",
                            f"plan started {starts} times with --defer-cap={case['cap']}")
        rec.mark_nontrivial(case, sample=dict(case, starts=starts))
    finally:
        os.chdir(ctx.scratch.root)
        H.cleanup_dir(ctx, d)


def subchecks(tier):
    big = tier == "thorough"
    return [
        SubCheck("dispatch", check_dispatch, strategy=specgen.rich_histories,
                 examples=120_000 if big else 3_000),
        SubCheck("defer_cap", check_defer, strategy=_defer_cases,
                 examples=20_000 if big else 600),
        SubCheck("swallowed_amend", check_swallow, cases=_swallow_cases, examples=8),
    ]


MANIFEST = {
    "engine": "E1-SimStepUp + decision instrumentation",
    "technique": "model-based property testing: generated histories and schedules; at every "
                 "dispatch decision the scheduler's cached attributes and its choice are compared "
                 "with a reference evaluation of the documented definitions over the raw tables; "
                 "end-of-phase completeness check; generated defer chains against the cap",
    "level_text": "Exploration; every decision of every generated build is an assertion point "
                  "(tens of thousands per quick run), both directions (nothing ineligible "
                  "starts, nothing eligible is left).",
    "level_note": "reference definitions re-implemented from the code comments; priority order "
                  "among eligible steps out of scope",
}
