"""C18  'Under this directory' selects exactly the paths under it.

Every selection site is driven through the real API on an in-memory workflow filled with
generated labels, and compared with `str.startswith(directory + "/")` on the same labels.
The directory itself (label == directory) is a don't-care: the statement speaks about proper
prefixes and both LIKE and the half-open range include the directory node on purpose.
"""

import asyncio
import contextlib
import sqlite3

from hypothesis import strategies as st

from harness.common import SubCheck, Violation

PROPERTY = "C18"
LEVEL = "exploration"
RULE = (
    "Hypothesis draws a directory name and 1-12 labels over the alphabet {a,A,b,B,%,_,\\,.,0,-,"
    "/-adjacent bytes,é,ẞ,ß} built so that shared prefixes, sibling prefixes (out/out2), case "
    "variants and LIKE wildcards occur; each selection site (prefix_clause, dir_range_upper "
    "range, static-tree ownership lookup and handover, nested-tree detection, "
    "relevant_paths_under, has_regular_output_under, directory targets in the scheduler, "
    "_is_justified_without_node, clean.search_matching_paths) is called through the real code "
    "and compared with str.startswith. Non-trivial = some label shares the directory name as a "
    "string prefix (or case-folded / LIKE-wildcard prefix) without being under it; distinct by "
    "(directory, labels)."
)
ASSUMPTIONS = [
    "Labels are normalized relative paths without empty, '.' or '..' components, as the API "
    "stores them; the directory's own node (label == directory + '/') is not asserted either way.",
    "SQLite's default BINARY collation compares UTF-8 bytes.",
]

_CHARS = ["a", "A", "b", "B", "%", "_", "\\", ".", "0", "-", "é", "ẞ", "ß", "É", "+", "!"]
_WIDE = [*_CHARS, "*", "?", "[", "]", "^", "[a]", "[!a]", "**"]
_COMP_WIDE = st.lists(st.sampled_from(_WIDE), min_size=1, max_size=3).map("".join).filter(
    lambda s: s not in (".", "..", ".stepup"))
_COMP = st.lists(st.sampled_from(_CHARS), min_size=1, max_size=3).map("".join).filter(
    lambda s: s not in (".", "..", ".stepup"))


@st.composite
def _case(draw, wide=False):
    _COMP = _COMP_WIDE if wide else globals()["_COMP"]
    ddepth = draw(st.integers(1, 2))
    dcomps = [draw(_COMP) for _ in range(ddepth)]
    d = "/".join(dcomps)
    labels = set()
    n = draw(st.integers(1, 12))
    for _ in range(n):
        kind = draw(st.sampled_from(
            ["under", "under", "sibling", "case", "wild", "parent", "random", "same", "deep"]))
        tail = [draw(_COMP) for _ in range(draw(st.integers(1, 2)))]
        if kind == "under":
            comps = dcomps + tail
        elif kind == "deep":
            comps = dcomps + tail + [draw(_COMP)]
        elif kind == "sibling":
            comps = [*dcomps[:-1], dcomps[-1] + draw(st.sampled_from(_CHARS)), *tail]
        elif kind == "case":
            comps = [c.swapcase() for c in dcomps] + tail
        elif kind == "wild":
            # what a LIKE wildcard in the directory name would also match
            comps = [c.replace("_", draw(st.sampled_from(["a", "b", "_"])))
                     .replace("%", draw(st.sampled_from(["", "a", "ab", "%"])))
                     .replace("?", draw(st.sampled_from(["a", "?", "b"])))
                     .replace("*", draw(st.sampled_from(["", "a", "ab", "*"])))
                     .replace("[a]", "a").replace("[!a]", "b") for c in dcomps]
            comps = [c for c in comps if c] + tail
        elif kind == "parent":
            comps = dcomps[:-1] + tail if len(dcomps) > 1 else tail
        elif kind == "same":
            comps = dcomps
        else:
            comps = tail
        if comps and not any(c in (".", "..", "") for c in comps) and comps[0] != ".stepup":
            labels.add("/".join(comps))
    return {"dir": d, "labels": sorted(labels)}


def under(d, label):
    return label.startswith(d + "/") and len(label) > len(d) + 1


def file_tree_conflict(labels):
    """Labels that are at the same time a file and a directory prefix of another label."""
    return {lab for lab in labels if any(o.startswith(lab + "/") for o in labels)}


async def _new_workflow(**kwargs):
    from stepup.core.sqlite3 import DBSession
    from stepup.core.workflow import Workflow

    stack = contextlib.ExitStack()
    db = stack.enter_context(DBSession.open(":memory:"))
    wf = Workflow(db, dir_queue=None, **kwargs)
    await wf.initialize()
    return wf, stack


def _confirm(wf, to_check):
    from stepup.core.enums import HashUpdateCause
    from stepup.core.hash import FileHash

    checked = {p: FileHash(bytes(32), 0o100644, 1.0, 1, 1) for p in to_check}
    wf.update_file_hashes(checked, cause=HashUpdateCause.CONFIRMED)


def _is_interesting(d, labels):
    dl = d.lower()
    return any((lab.startswith(d) or lab.lower().startswith(dl)) and not under(d, lab)
               and lab != d for lab in labels) or ("%" in d or "_" in d or "\\" in d)


async def check_sites(case, rec, ctx):
    from stepup.core.enums import Need
    from stepup.core.exceptions import GraphError
    from stepup.core.file import File
    from stepup.core.nglob import NamedGlob
    from stepup.core.path import dir_range_upper
    from stepup.core.sqlite3 import prefix_clause
    from stepup.core.step import Step

    d = case["dir"]
    labels = list(case["labels"])
    expected = {lab for lab in labels if under(d, lab)}
    if _is_interesting(d, labels):
        rec.mark_nontrivial([d, labels], sample=case)
    rec.event(f"n_under={min(len(expected), 3)}")

    def compare(site, selected, universe=None, dontcare=()):
        universe = labels if universe is None else universe
        exp = {lab for lab in universe if under(d, lab)}
        sel = set(selected) - set(dontcare) - {d + "/"}
        if sel != exp:
            wrong = sorted(sel - exp)
            missed = sorted(exp - sel)
            flavour = "other"
            if wrong and all(w.lower().startswith(d.lower() + "/") for w in wrong):
                flavour = "case-insensitive"
            elif wrong == [d]:
                flavour = "file-named-like-directory"
            elif wrong and all(w.startswith(d) for w in wrong):
                flavour = "sibling-prefix"
            elif missed and not wrong:
                flavour = "missed"
            raise Violation(
                f"C18/{site}/{flavour}",
                f"{site}: directory {d!r}, labels {universe}: selected {sorted(sel)}, expected "
                f"{sorted(exp)} (wrongly selected {wrong}, missed {missed})",
            )

    # 1. prefix_clause and the dir_range_upper range on a plain table.
    con = sqlite3.connect(":memory:")
    con.execute("CREATE TABLE node (label TEXT)")
    con.executemany("INSERT INTO node VALUES (?)", [(lab,) for lab in labels])
    clause, pattern = prefix_clause("label", d + "/")
    compare("prefix_clause", [r[0] for r in con.execute(f"SELECT label FROM node WHERE {clause}",
                                                          (pattern,))])
    compare("dir_range_upper", [r[0] for r in con.execute(
        "SELECT label FROM node WHERE label >= ? AND label < ?",
        (d + "/", dir_range_upper(d + "/")))])
    con.close()

    from stepup.core.nglob import has_any_wildcards

    if not has_any_wildcards(d):  # a static tree path may not contain wildcards
        await _site_tree(d, labels, compare)
        await _site_nested(d, labels)
    await _site_relevant(d, labels, compare)

    # 6. has_regular_output_under and the directory-target elevation in the scheduler.
    await _check_outputs(d, labels, compare)

    # 7. clean.search_matching_paths on a raw connection.
    await _check_clean(d, labels, compare)



async def _plan_workflow(**kwargs):
    from stepup.core.enums import Need
    from stepup.core.step import Step

    wf, stack = await _new_workflow(**kwargs)
    async with wf.db:
        root = wf.root
        _confirm(wf, wf.declare_static_files(root, ["plan.py"]))
        wf.define_step(root, "./plan.py", inp_paths=["plan.py"], need=Need.PLAN, _safe=True)
        plan = wf.find(Step, "./plan.py")
    return wf, stack, plan


async def _site_tree(d, labels, compare):
    """Static files declared by a plan step, then the tree: handover and ownership lookup."""
    from stepup.core.exceptions import GraphError
    from stepup.core.file import File

    wf, stack, plan = await _plan_workflow()
    with stack:
        async with wf.db:
            conflict = file_tree_conflict([*labels, d])
            files = [lab for lab in labels if lab not in conflict and lab != d]
            _confirm(wf, wf.declare_static_files(plan, files))
            try:
                _confirm(wf, wf.register_static_tree(plan, d))
            except GraphError as exc:
                raise Violation("C18/register_static_tree/rejects-own-static-files",
                                f"tree {d!r} over own static files {files}: {exc}") from exc
            tree_label = d + "/"
            owned = []
            for lab in files:
                creator = wf.find(File, lab).creator()
                if creator is not None and creator.label == tree_label and creator.kind() == "st":
                    owned.append(lab)
            compare("static_tree_handover", owned, universe=files)
            # ownership lookup for every label and some probes that are not nodes
            probes = sorted(set(labels) | {d + "x", d.swapcase() + "/x", d + "/x", d + "0"})
            found = [lab for lab in probes if wf._find_owning_static_tree(lab) is not None]
            compare("find_owning_static_tree", found, universe=probes)
            # re-declaring the files afterwards must stay a no-op or a clean hand-over
            try:
                _confirm(wf, wf.declare_static_files(plan, files))
            except GraphError as exc:
                raise Violation("C18/declare_static_files/redeclare-after-tree",
                                f"tree {d!r}, files {files}: {exc}") from exc


async def _site_nested(d, labels):
    """Nested tree detection: existing tree t (a label's directory), then register d."""
    from stepup.core.enums import Need
    from stepup.core.exceptions import GraphError
    from stepup.core.nglob import has_any_wildcards
    from stepup.core.step import Step

    for lab in labels:
        if "/" not in lab:
            continue
        t = lab.rsplit("/", 1)[0]
        if t == d or has_any_wildcards(t):
            continue
        wf, stack, plan = await _plan_workflow()
        with stack:
            async with wf.db:
                wf.define_step(plan, "other", need=Need.PLAN)
                other = wf.find(Step, "other")
                wf.register_static_tree(other, t)
                nested = (t + "/").startswith(d + "/") or (d + "/").startswith(t + "/")
                try:
                    wf.register_static_tree(plan, d)
                    rejected = False
                except GraphError:
                    rejected = True
                if rejected != nested:
                    raise Violation(
                        "C18/register_static_tree/nesting-" + ("missed" if nested else
                                                                 "false-positive"),
                        f"existing tree {t + '/'!r}, new tree {d + '/'!r}: rejected={rejected}, "
                        f"nested={nested}",
                    )
        break  # one nested probe per case keeps the cost bounded


async def _site_relevant(d, labels, compare):
    """relevant_paths_under and _is_justified_without_node."""
    from stepup.core.nglob import NamedGlob

    wf, stack, plan = await _plan_workflow()
    with stack:
        async with wf.db:
            half = len(labels) // 2
            conflict = file_tree_conflict(labels)
            files = [lab for lab in labels[:half] if lab not in conflict]
            _confirm(wf, wf.declare_static_files(plan, files))
            ng = NamedGlob("**", {}, {(): set(labels[half:])})
            wf.register_nglob(plan, ng)
            universe = files + labels[half:]
            for probe_dir in (d, d + "/"):
                compare("relevant_paths_under", list(wf.relevant_paths_under(probe_dir)),
                        universe=universe, dontcare=["plan.py"])
            # _is_justified_without_node, arm A (inside a tree), arm B (dir contains static)
            tree_labels = [d + "/"]
            inside = [lab for lab in labels if wf._is_justified_without_node(lab, tree_labels)]
            compare("is_justified_without_node/inside-tree", inside, universe=labels)
            contains = wf._is_justified_without_node(d + "/", [])
            exp_contains = any(under(d, lab) for lab in files)
            if contains != exp_contains:
                raise Violation(
                    "C18/is_justified_without_node/contains-static/"
                    + ("false-positive" if contains else "missed"),
                    f"directory {d + '/'!r}, static files {files}: justified={contains}",
                )
            tl = [lab.rsplit("/", 1)[0] + "/" for lab in labels if "/" in lab]
            contains_tree = wf._is_justified_without_node(d + "/", tl)
            exp_ct = (any(t.startswith(d + "/") for t in tl) or exp_contains
                      or any((d + "/").startswith(t) for t in tl))
            if contains_tree != exp_ct:
                raise Violation(
                    "C18/is_justified_without_node/contains-tree/"
                    + ("false-positive" if contains_tree else "missed"),
                    f"directory {d + '/'!r}, trees {tl}, static {files}: {contains_tree}",
                )


async def _check_outputs(d, labels, compare):
    from stepup.core.enums import Need
    from stepup.core.scheduler import Scheduler
    from stepup.core.step import Step

    conflict = file_tree_conflict(labels)
    outs = [lab for lab in labels if lab not in conflict and lab != d]
    if not outs:
        return
    wf, stack = await _new_workflow(target_dirs=[d + "/"])
    with stack:
        async with wf.db:
            root = wf.root
            _confirm(wf, wf.declare_static_files(root, ["plan.py"]))
            wf.define_step(root, "./plan.py", inp_paths=["plan.py"], need=Need.PLAN, _safe=True)
            plan = wf.find(Step, "./plan.py")
            for i, lab in enumerate(outs):
                wf.define_step(plan, f"cmd{i}", out_paths=[lab])
            has = wf.has_regular_output_under(d + "/")
            exp = any(under(d, lab) for lab in outs)
            if has != exp:
                raise Violation(
                    "C18/has_regular_output_under/" + ("false-positive" if has else "missed"),
                    f"directory {d + '/'!r}, outputs {outs}: {has}",
                )
        scheduler = Scheduler(wf, db=wf.db)
        await scheduler.initialize(None)
        async with wf.db:
            wf.reconcile_targets()
            scheduler._update_meta_safe()
            scheduler._update_meta_after()
            scheduler._update_meta_ready()
            rows = wf.db.execute(
                "SELECT node.label, step._implied_need FROM step JOIN node ON node.i = step.node"
            ).fetchall()
        elevated = []
        for label, implied in rows:
            if label.startswith("cmd") and implied == Need.TARGET.value:
                elevated.append(outs[int(label[3:])])
        compare("directory_target_elevation", elevated, universe=outs)


async def _check_clean(d, labels, compare):
    from path import Path

    from stepup.core.clean import search_matching_paths
    from stepup.core.enums import Need
    from stepup.core.step import Step

    conflict = file_tree_conflict(labels)
    files = [lab for lab in labels if lab not in conflict]
    wf, stack = await _new_workflow()
    with stack:
        async with wf.db:
            root = wf.root
            _confirm(wf, wf.declare_static_files(root, ["plan.py"]))
            wf.define_step(root, "./plan.py", inp_paths=["plan.py"], need=Need.PLAN, _safe=True)
            plan = wf.find(Step, "./plan.py")
            _confirm(wf, wf.declare_static_files(plan, files))
            con = wf.db._con
            selected = search_matching_paths(con, {Path(d)})
        # `stepup clean PATH` also selects PATH itself when it is a file: not a prefix selection.
        compare("clean.search_matching_paths", selected, universe=files,
                dontcare=["plan.py", d])


def subchecks(tier):
    big = tier == "thorough"
    return [
        SubCheck("selection_sites", check_sites, strategy=_case,
                 examples=240_000 if big else 8_000),
        SubCheck("selection_sites_wide_alphabet", check_sites,
                 strategy=lambda: _case(wide=True), examples=120_000 if big else 4_000),
    ]


MANIFEST = {
    "engine": "E4-pure",
    "technique": "property-based testing: generated label sets over a hostile alphabet, every "
                 "'under directory' selection of the real code compared with str.startswith",
    "level_text": "Exploration with a trivial exact oracle (str.startswith) at all eleven "
                  "selection sites, through the real Workflow/Scheduler/clean code on in-memory "
                  "SQLite; label sets are built around sibling-prefix, case and LIKE-wildcard "
                  "neighbours of the directory name.",
    "level_note": "labels are normalized relative paths; the directory's own node is a don't-care",
}
