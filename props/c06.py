"""C06  Cleaning never destroys what StepUp does not own.

Engine E1. Histories with user actions on former and current outputs (overwrite, delete, replace
by a directory, touch, adopt as a source), builds with drawn --clean/--no-clean, keep-going and
failing steps, and `stepup clean` invocations (in-process, read-only connection) with drawn
arguments. After every invocation the set of deleted paths is judged against the harness's own
provenance ledger.
"""

from harness import cleaning as C
from harness import history as H
from harness.common import SubCheck, Violation
from props.c01 import check_serve_health

PROPERTY = "C06"
LEVEL = "exploration"
RULE = (
    "Histories of 2-4 builds (as C01) with, before a build, 1-2 user actions on outputs of the "
    "previous spec (overwrite, delete, replace by a directory holding a user file, touch), "
    "adoption of an output as a user source, --no-clean builds, and `stepup clean` calls with "
    "drawn paths and --commit/--all/--unsafe. Every deleted file must be: not user-provided, "
    "declared out/vol by some step of this workflow's history, and (regular output, no --unsafe) "
    "byte-identical to what a step last wrote; every removed directory must have lost all its "
    "entries in the same invocation; nothing may be deleted after an incomplete build, with "
    "--no-clean, or by `stepup clean` without --commit. Non-trivial = an invocation that deleted "
    "something while a candidate had to be refused (modified or user-owned path under a "
    "declared output name); distinct by history."
)
ASSUMPTIONS = [
    "Simulated steps never delete files, so every deletion during a build is StepUp's.",
    "The provenance ledger (who wrote what last) is kept by the harness from its own step log.",
]


async def check_case(case, rec, ctx):
    state = {"refused": 0, "deleted": 0}

    def on_invocation(kind, where, before, after, stage, ledger, dirs, tool):
        files, removed_dirs = C.deleted_paths(before, after)
        if kind == "build":
            check_serve_health(PROPERTY, stage, where)
            rc = H.returncode_class(stage.result.returncode)
            must_not_clean = (rc != "OK" or not stage.config.get("do_clean", True)
                              or bool(stage.config.get("targets")))
            if must_not_clean and (files or removed_dirs):
                raise Violation(
                    f"{PROPERTY}/cleaned-although-it-must-not",
                    f"{where}: return code {rc}, do_clean={stage.config.get('do_clean', True)}, "
                    f"targets={stage.config.get('targets')}, yet deleted {files} {removed_dirs}",
                )
            written_now = {e["path"]: e["sha"] for e in stage.result.steplog
                           if e["op"] in ("write", "write_partial")}
            C.check_deletions(PROPERTY, where, before, after, ledger,
                              static=C.static_paths(stage.result.tables),
                              written_now=written_now)
        else:
            if not tool["commit"] and (files or removed_dirs):
                raise Violation(f"{PROPERTY}/clean-without-commit-deleted",
                                f"{where} {tool}: deleted {files} {removed_dirs}")
            C.check_deletions(PROPERTY, f"{where} {tool}", before, after, ledger,
                              unsafe=tool["unsafe"], static=C.static_paths(stage.result.tables))
            rec.event("tool:" + ("commit" if tool["commit"] else "dry"))
            if tool.get("outcome"):
                rec.event("observed:stepup-clean-" + tool["outcome"])
        state["deleted"] += len(files)
        # candidates that had to be refused: declared output names whose content is the user's
        for p, roles in ledger.ever_declared.items():
            entry = after.get(p)
            if entry and entry["type"] == "file" and "vol" not in roles and \
                    ledger.last_written.get(p) != entry["sha"] and p not in ledger.user_files:
                state["refused"] += 1

    records, ledger, dirs, d = await C.run_clean_history(case, ctx, on_invocation)
    try:
        rec.event(f"deleted={min(state['deleted'], 3)}")
        for kind, _path in ledger.observations:
            rec.event("observed:" + kind)
        if state["deleted"] and state["refused"]:
            rec.mark_nontrivial([s["spec"] for s in case["stages"]],
                                sample={"edits": [s["edit"] for s in case["stages"]],
                                        "user_actions": [s["build"].get("user_actions")
                                                         for s in case["stages"]],
                                        "clean_tool": [s.get("clean_tool")
                                                       for s in case["stages"]]})
    finally:
        H.cleanup_dir(ctx, d)


def subchecks(tier):
    big = tier == "thorough"
    return [SubCheck("deletions", check_case, strategy=C.clean_histories,
                     examples=160_000 if big else 4_000)]


MANIFEST = {
    "engine": "E1-SimStepUp",
    "technique": "model-based property testing: generated edit/build/clean histories with user "
                 "interference, deleted-set oracle against an independent provenance ledger",
    "level_text": "Exploration; every automatic cleanup and every `stepup clean` call of every "
                  "generated history is judged from before/after file-system snapshots.",
    "level_note": "steps never delete (so deletions are StepUp's); ledger built from the "
                  "harness's own log of simulated writes and declarations",
}
