"""C11  Exactly the needed steps are executed.

Engine E1. Projects mixing OPTIONAL / DEFAULT / PLAN steps (optional chains, optional steps under
sub-plans, volatile outputs, amended inputs), built fresh or resumed, with and without file and
directory targets; "needed" is recomputed from the final tables by the definition in the
statement (harness.history.needed_steps), independently of the cached _implied_need column.
"""

import os

from hypothesis import strategies as st

from harness import history as H
from harness import specgen
from harness.common import SubCheck, Violation
from props.c01 import check_serve_health

PROPERTY = "C11"
LEVEL = "exploration"
RULE = (
    "Hypothesis draws a spec biased towards optional steps (each step optional with p=1/2, "
    "chains through optional outputs), 1-3 builds each with a drawn target set (none, output "
    "files, directories incl. sibling-prefix names, a static file, a volatile output, a path "
    "nobody produces) and light edits in between (toggle optional, drop/re-add consumer). After "
    "each build that neither failed nor drained: every needed step is SUCCEEDED when the build "
    "reports success; on a fresh database the executed commands are exactly the needed steps; "
    "after a successful unrestricted build with cleaning SUCCEEDED <=> needed for optional steps "
    "and unneeded optional outputs are gone from disk, PLANNED, their step PENDING; a static or "
    "volatile target fails the build before any command runs. Non-trivial = an optional chain of "
    "length >= 2 exists or the target set changed between two builds; distinct by specs+targets."
)
ASSUMPTIONS = [
    "The definition of 'needed' is evaluated on the final graph of each build (dynamic edges "
    "included), so 'executed is a subset of needed' is only asserted for builds on a fresh "
    "database, where the graph only grows.",
]


@st.composite
def _cases(draw):
    spec = draw(specgen.specs(max_steps=6))
    names = sorted(spec["steps"])
    for n in names:
        sd = spec["steps"][n]
        if sd["out"] and not sd["amend_out"] and draw(st.booleans()):
            sd["need"] = "optional"
        elif sd["amend_out"]:
            sd["need"] = "default"
        sd["fail"] = None
    resources = "gpu:2,lic:2"
    nbuilds = draw(st.integers(1, 3))
    stages = []
    stash = {}
    for i in range(nbuilds):
        if i > 0:
            kind = draw(st.sampled_from(["none", "toggle_optional", "drop_step", "readd_step",
                                         "change_source", "toggle_amend", "drop_subplan",
                                         "readd_subplan"]))
            if kind != "none":
                _desc, spec = draw(specgen.edits(spec, stash, [kind]))
                for sd in spec["steps"].values():
                    sd["fail"] = None
        outs = specgen.declared_outputs(spec)
        files = sorted(p for p, (_n, role) in outs.items() if role == "out")
        vols = sorted(p for p, (_n, role) in outs.items() if role == "vol")
        mode = draw(st.sampled_from(["none", "none", "files", "dirs", "mixed", "invalid-static",
                                     "invalid-volatile", "unproduced"]))
        targets = []
        if mode in ("files", "mixed") and files:
            targets += draw(st.lists(st.sampled_from(files), min_size=1, max_size=2))
        if mode in ("dirs", "mixed"):
            targets += draw(st.lists(st.sampled_from(
                [d for d in specgen.OUT_DIRS] + ["sub/", "out2/", "ou/"]), min_size=1, max_size=2))
        if mode == "invalid-static" and spec["sources"]:
            used = sorted({p for sd in spec["steps"].values() for p in sd["inp"]
                           if p in spec["sources"]})
            if used:
                targets.append(draw(st.sampled_from(used)))
        if mode == "invalid-volatile" and vols:
            targets.append(draw(st.sampled_from(vols)))
        if mode == "unproduced":
            targets.append("out/nobody.out")
        build = specgen.build_config(draw, final=True, resources=resources)
        build["targets"] = sorted(set(targets))
        build["target_mode"] = mode
        stages.append({"edit": ["stage"], "spec": spec, "build": build})
    return {"stages": stages}


def check_stage(i, r, fresh, rec):
    from stepup.core.enums import FileState, Need, StepState

    check_serve_health(PROPERTY, r, i)
    rc = H.returncode_class(r.result.returncode)
    rec.event("rc:" + rc)
    targets = [t for t in r.config.get("targets", []) if not t.endswith("/")]
    target_dirs = [t for t in r.config.get("targets", []) if t.endswith("/")]
    mode = r.config.get("target_mode")
    rec.event("targets:" + mode)
    tables = r.result.tables
    started = list(dict.fromkeys(r.result.commands))
    fstates = H.file_states(tables) if tables else {}
    # invalid targets fail the build before any step runs
    for t in targets:
        if t in fstates and not fstates[t][1]:
            state = FileState(fstates[t][0])
            from stepup.core.enums import TARGET_FORBIDDEN_STATES

            if fresh is False and state in TARGET_FORBIDDEN_STATES and not r.result.commands \
                    and "FAILED" in rc:
                rec.event("invalid-target-rejected-at-startup")
    if tables is None:
        return
    need = H.needed_steps(tables, targets, target_dirs)
    threshold = Need.DEFAULT.value if (targets or target_dirs) else Need.OPTIONAL.value
    needed = {lbl for lbl, v in need.items() if v > threshold}
    sstates = H.step_states(tables)
    if "FAILED" in rc or "DRAINED" in rc or "INTERNAL" in rc:
        return
    if rc == "OK":
        missing = sorted(lbl for lbl in needed if sstates[lbl][0] != StepState.SUCCEEDED.value)
        if missing:
            raise Violation(
                f"{PROPERTY}/needed-step-not-built",
                f"stage {i} (targets {r.config.get('targets')}): the build reports success but "
                f"needed steps are not SUCCEEDED: {missing}",
            )
    if fresh:
        extra = [lbl for lbl in started if lbl not in needed]
        if extra:
            raise Violation(
                f"{PROPERTY}/unneeded-step-executed",
                f"stage {i} on a fresh database (targets {r.config.get('targets')}): executed "
                f"{extra}, which the final graph does not need (needed: {sorted(needed)})",
            )
    if rc == "OK" and not targets and not target_dirs and r.config.get("do_clean", True):
        nodes = {n["i"]: n for n in tables["node"]}
        steps = {s["node"]: s for s in tables["step"]}
        for dep in tables["dependency"]:
            src, snk = dep["source"], dep["sink"]
            if src in steps and not nodes[src]["detached"] and \
                    steps[src]["need"] == Need.OPTIONAL.value:
                label = nodes[src]["label"]
                fpath = nodes[snk]["label"]
                fstate = fstates[fpath][0]
                if label not in needed:
                    if sstates[label][0] != StepState.PENDING.value:
                        raise Violation(
                            f"{PROPERTY}/unneeded-optional-step-not-reverted",
                            f"stage {i}: optional step {label!r} is not needed but is "
                            f"{StepState(sstates[label][0]).name}",
                        )
                    if os.path.exists(fpath) and fstate != FileState.PLANNED.value and \
                            fstate != FileState.VOLATILE.value:
                        raise Violation(f"{PROPERTY}/unneeded-optional-output-not-reset",
                                        f"stage {i}: {fpath} is {FileState(fstate).name}")
                    if os.path.isfile(fpath) and r.after.get(fpath, {}).get("sha") == \
                            r.ledger_written.get(fpath):
                        raise Violation(
                            f"{PROPERTY}/unneeded-optional-output-left-on-disk",
                            f"stage {i}: {fpath} of unneeded optional step {label!r} is still "
                            "on disk, unmodified",
                        )
                elif sstates[label][0] != StepState.SUCCEEDED.value:
                    raise Violation(f"{PROPERTY}/needed-optional-step-not-built",
                                    f"stage {i}: {label!r} is needed but "
                                    f"{StepState(sstates[label][0]).name}")
    return needed


async def check_case(case, rec, ctx):
    d = None
    state = {"nontrivial": False, "prev_targets": None}

    def after_stage(i, r, ledger):
        r.ledger_written = dict(ledger.last_written)
        needed = check_stage(i, r, i == 0, rec)
        targets = r.config.get("targets")
        if state["prev_targets"] is not None and state["prev_targets"] != targets:
            state["nontrivial"] = True
        state["prev_targets"] = targets
        # optional chain of length >= 2: an optional step consumes an output of an optional step
        spec = r.spec
        outs = specgen.declared_outputs(spec)
        for n in specgen.active_steps(spec):
            sd = spec["steps"][n]
            if sd["need"] == "optional":
                for p in sd["inp"] + sd["amend_inp"]:
                    if p in outs and spec["steps"][outs[p][0]]["need"] == "optional":
                        state["nontrivial"] = True

    try:
        try:
            records, ledger, d = await H.run_history(case, ctx, after_stage=after_stage)
        finally:
            d = d or os.getcwd()
        for i, r in enumerate(records):
            check_serve_health(PROPERTY, r, i)
        if state["nontrivial"]:
            rec.mark_nontrivial([[s["spec"], s["build"].get("targets")] for s in case["stages"]],
                                sample={"targets": [s["build"].get("targets")
                                                    for s in case["stages"]],
                                        "needs": [{n: sd["need"] for n, sd in
                                                   s["spec"]["steps"].items()}
                                                  for s in case["stages"]][:1]})
    finally:
        if d:
            H.cleanup_dir(ctx, d)


def subchecks(tier):
    big = tier == "thorough"
    return [SubCheck("needed_vs_executed", check_case, strategy=_cases,
                     examples=200_000 if big else 5_000)]


MANIFEST = {
    "engine": "E1-SimStepUp",
    "technique": "model-based property testing: generated optional/default/plan DAGs and target "
                 "sets; executed set and final states compared with a fixed-point reference "
                 "definition of 'needed' computed from the raw tables",
    "level_text": "Exploration; the reference definition is independent of the cached "
                  "_implied_need column and of UPDATE_CHECK_AFTER.",
    "level_note": "executed-subset-of-needed only on fresh databases; targets from declared "
                  "outputs, sibling-prefix directories, invalid and unproduced paths",
}
