"""C07  A successful build leaves no orphaned outputs behind.

Engine E1, same histories as C06 without the `stepup clean` tool. After every successful,
unrestricted build with cleaning enabled, every unmodified former output that the workflow no
longer defines (or defines only through an optional step that is not needed) and that no active
step uses as input must be gone from disk and from the graph, with the directories StepUp created
for it that became empty.
"""

from harness import cleaning as C
from harness import history as H
from harness.common import SubCheck, Violation
from props.c01 import check_serve_health

PROPERTY = "C07"
LEVEL = "exploration"
RULE = (
    "Histories of 2-4 builds whose edits drop, rename, move, re-role (out<->vol, default<->"
    "optional) steps and outputs, drop/re-add a sub-plan, toggle amended outputs, with user "
    "actions on outputs; after each successful unrestricted build with cleaning, the provenance "
    "ledger lists every path a step ever wrote: each one that is unmodified, not declared by an "
    "attached step and not an input of an attached step must be absent from disk and node table; "
    "outputs of pending unneeded optional steps must be absent from disk; directories first seen "
    "as created by StepUp that are empty must be gone. Non-trivial = at least one such candidate "
    "existed on disk before the build; distinct by history."
)
ASSUMPTIONS = [
    "A directory counts as created by StepUp when it first appeared during a build and holds no "
    "user-provided file.",
]


async def check_case(case, rec, ctx):
    state = {"candidates": 0}

    def on_invocation(kind, where, before, after, stage, ledger, dirs, tool):
        if kind != "build":
            return
        check_serve_health(PROPERTY, stage, where)
        rc = H.returncode_class(stage.result.returncode)
        rec.event("rc:" + rc)
        if rc != "OK" or not stage.config.get("do_clean", True):
            return
        files, removed_dirs = C.deleted_paths(before, after)
        state["candidates"] += len(files)
        problems = C.stepup_should_have_cleaned(stage.result.tables, ledger, dirs, after, before)
        if problems:
            kind_, path = problems[0]
            raise Violation(
                f"{PROPERTY}/{kind_}",
                f"{where}: {problems[:6]} after a successful build with cleaning; edits "
                f"{[s['edit'] for s in case['stages']]}",
            )

    records, ledger, dirs, d = await C.run_clean_history(case, ctx, on_invocation)
    try:
        if state["candidates"]:
            rec.mark_nontrivial([s["spec"] for s in case["stages"]],
                                sample={"edits": [s["edit"] for s in case["stages"]],
                                        "removed_files": state["candidates"]})
    finally:
        H.cleanup_dir(ctx, d)


def subchecks(tier):
    big = tier == "thorough"
    return [
        SubCheck("orphans", check_case,
                 strategy=lambda: C.clean_histories(with_tool=False),
                 examples=120_000 if big else 3_000),
        SubCheck("orphans_optional_focus", check_case,
                 strategy=lambda: C.clean_histories(with_tool=False, focus="optional"),
                 examples=60_000 if big else 1_500),
    ]


MANIFEST = {
    "engine": "E1-SimStepUp",
    "technique": "model-based property testing: generated plan-edit histories; completeness "
                 "oracle for cleanup from an independent ledger of everything steps ever wrote",
    "level_text": "Exploration; after each successful cleaning build the whole ledger is swept "
                  "for leftovers on disk, in the node table and among StepUp-created directories.",
    "level_note": "ledger from the harness's own step log; 'created by StepUp' inferred from "
                  "snapshots",
}
