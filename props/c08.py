"""C08  Every path has one owner and conflicts are rejected in either order.

Engine E1. (ownership) the chaos histories of C09, judged after every commit by ownership
invariants stated over the raw tables: a static tree owns every attached file below it, trees do
not nest, an output has exactly one producing edge (from its creator) and a static file none, no
registered pattern matches an attached output. (either_order) two declarations A and B drawn from
a grammar over a five-path universe, made by one creator or by two (root plan and sub-plan), are
applied alone, as A;B and as B;A on identical projects: when both are acceptable alone, B is
refused after A exactly when A is refused after B, and repeating a static declaration by the
same creator changes nothing.
"""

import copy
import os
import re

from hypothesis import strategies as st

from harness import history as H
from harness import invariants as inv
from harness import specgen
from harness.common import SubCheck, Violation
from harness.instrument import Instrument
from props.c01 import check_serve_health

PROPERTY = "C08"
LEVEL = "exploration"
RULE = (
    "(ownership) chaos histories as in C09; an evaluation is one commit. Oracle per commit: "
    "every attached file below an attached static tree is created by that tree and has a static "
    "state; no attached tree below another; an attached file in an output/volatile state is "
    "created by a step and has exactly one incoming step edge, from that creator; an attached "
    "static file has no incoming step edge; no regex of an attached glob registration matches "
    "the label of an attached output or volatile file. Non-trivial = a build with a rejected "
    "request. (either_order) A, B from {static file, static tree, glob, step with one output / "
    "one volatile output / one input, amend out / vol / inp by the plan itself} over paths "
    "{cf/a.txt, cf/deep/c.txt, cx/o1.out, cx/deep/o3.out} and directories {cf/, cf/deep/, cx/}; "
    "creators: same plan, or root plan and sub-plan in both roles; four builds (A, B, A;B, B;A) "
    "with the arrival order read back from the request log. Oracle: if A and B are accepted "
    "alone then (B refused after A) <=> (A refused after B); a repeated static file/tree/glob "
    "declaration by the same creator is accepted and leaves all tables unchanged. Non-trivial = "
    "a pair that conflicts; distinct by (A, B, creators)."
)
ASSUMPTIONS = [
    "Requests carry paths as the client sends them after its own normalisation (C20).",
    "The volatile-input rule (a declared volatile file cannot be an input) is a conflict between "
    "a volatile declaration and an input reference; it is judged like the others.",
]


# ---------------------------------------------------------------------------------------------
# ownership invariants


def ownership(view):
    out = []
    nodes, files = view.nodes, view.files
    trees = [n for n in nodes.values() if n["kind"] == "st" and not n["detached"]]
    for t in trees:
        for u in trees:
            if t is not u and u["label"].startswith(t["label"]):
                out.append(("nested-static-trees", f"{t['label']} contains {u['label']}"))
    step_sources = {}
    for d in view.deps:
        if nodes.get(d["source"], {}).get("kind") == "step":
            step_sources.setdefault(d["sink"], []).append(d["source"])
    for i, f in files.items():
        n = nodes.get(i)
        if n is None or n["detached"]:
            continue
        role = inv.role_of(f["state"])
        for t in trees:
            if n["label"].startswith(t["label"]):
                if n["creator"] != t["i"]:
                    out.append(("file-under-static-tree-owned-by-someone-else",
                                f"{n['label']} is under tree {t['label']} but created by "
                                f"{view.label(n['creator'])}"))
                elif role != "static":
                    out.append(("non-static-file-under-static-tree",
                                f"{n['label']} under {t['label']} is {inv.FILE_NAMES[f['state']]}"))
        producers = [s for s in step_sources.get(i, []) if not nodes[s]["detached"]]
        if role in ("output", "volatile"):
            creator = nodes.get(n["creator"])
            if creator is None or creator["kind"] != "step":
                out.append(("output-not-created-by-a-step",
                            f"{n['label']} created by {view.label(n['creator'])}"))
            if producers != [n["creator"]]:
                out.append(("output-without-exactly-one-producer",
                            f"{n['label']} ({inv.FILE_NAMES[f['state']]}) created by "
                            f"{view.label(n['creator'])}, attached producing steps "
                            f"{[view.label(s) for s in producers]}"))
        elif role == "static" and producers:
            out.append(("static-file-with-producer",
                        f"{n['label']} is static and an output of "
                        f"{[view.label(s) for s in producers]}"))
    products = [(n["label"], view.label(n["creator"])) for i, n in nodes.items()
                if n["kind"] == "file" and not n["detached"] and i in files
                and inv.role_of(files[i]["state"]) in ("output", "volatile")]
    for g in view.tables["nglob"]:
        gn = nodes.get(g["node"])
        if gn is None or gn["detached"]:
            continue
        rx = re.compile(g["regex"])
        for label, creator in products:
            if rx.fullmatch(label):
                out.append(("glob-matches-built-path",
                            f"pattern {g['pattern']!r} of {gn['label']!r} matches {label}, which "
                            f"{creator} builds"))
    return out


class OwnershipInstrument(Instrument):
    glob_hits = ()

    def on_commit(self, con, ncommit):
        before = self.prev
        super().on_commit(con, ncommit)
        cur = self.prev
        for sig, msg in ownership(cur):
            if sig == "file-under-static-tree-owned-by-someone-else" and before is not None \
                    and self._tree_came_back_by_recycling(before, cur, msg):
                sig = "file-declared-while-tree-was-detached-and-tree-re-attached-by-recycling"
            if sig == "nested-static-trees" and before is not None \
                    and self._nested_by_recycling(before, cur, msg):
                sig = "tree-registered-while-nested-tree-was-detached-and-re-attached-by-recycling"
            if sig == "glob-matches-built-path" and before is not None:
                if self._output_came_back_by_recycling(before, cur, msg):
                    sig = ("pattern-registered-while-output-was-detached-and-output-re-attached-"
                           "by-recycling")
                elif self._pattern_came_back_by_recycling(before, cur, msg):
                    sig = ("output-declared-while-pattern-owner-was-detached-and-pattern-re-"
                           "attached-by-recycling")
            self.note("ownership/" + sig, f"after commit {ncommit}: {msg}")

    def _nested_by_recycling(self, before, cur, msg):
        """One of the two trees was detached before this commit and its creator has not
        registered it in this build: it returned with the recycled subtree of its creator."""
        outer, inner = msg.split(" contains ")
        for label in (outer, inner):
            for n in cur.nodes.values():
                if n["kind"] == "st" and n["label"] == label and not n["detached"]:
                    was = before.nodes.get(n["i"])
                    if was is None or not was["detached"]:
                        continue
                    owner = cur.nodes[n["creator"]]["label"]
                    declared = any(e["op"] == "static" and e["label"] == owner
                                   and label.rstrip("/") in [t.rstrip("/") for t in e["trees"]]
                                   for e in self.session.steplog)
                    if not declared:
                        return True
        return False

    def _pattern_came_back_by_recycling(self, before, cur, msg):
        """The step that registered the pattern was detached before this commit and has not
        registered the pattern in this build: the registration returned with the recycled step."""
        pattern = msg.split("pattern ")[1].split(" of ")[0].strip("'")
        owner = msg.split(" of '")[1].split("' matches ")[0]
        for n in cur.nodes.values():
            if n["kind"] == "step" and n["label"] == owner and not n["detached"]:
                was = before.nodes.get(n["i"])
                if was is None or not was["detached"]:
                    return False
                for e in self.session.steplog:
                    if e["label"] != owner:
                        continue
                    if e["op"] == "glob" and e["pattern"] == pattern:
                        return False
                    if e["op"] == "static" and pattern in e.get("patterns", []):
                        return False
                return True
        return False

    def _output_came_back_by_recycling(self, before, cur, msg):
        """The output named in the message was detached before this commit and no request of this
        build has declared it (as out/vol of a step definition or of an amend): it returned with
        a recycled node that remembered it."""
        path = msg.split(" matches ")[1].split(", which")[0]
        for n in cur.nodes.values():
            if n["kind"] == "file" and n["label"] == path and not n["detached"]:
                was = before.nodes.get(n["i"])
                if was is None or not was["detached"]:
                    return False
                for e in self.session.steplog:
                    if e["op"] in ("define", "amend") and path in (
                            e["spec"].get("out", []) + e["spec"].get("vol", [])):
                        return False
                return True
        return False

    @staticmethod
    def _tree_came_back_by_recycling(before, cur, msg):
        """The tree named in the message was detached before this commit (or its conflict with
        the file already existed then) and its creator is not running now: nobody declared the
        tree in this transaction, it returned with the recycled subtree of its creator."""
        label = msg.split(" is under tree ")[1].split(" but created by")[0]
        for n in cur.nodes.values():
            if n["kind"] == "st" and n["label"] == label and not n["detached"]:
                creator = cur.steps.get(n["creator"])
                was = before.nodes.get(n["i"])
                came_back = was is not None and was["detached"]
                persisted = was is not None and not was["detached"]
                not_declaring = creator is None or creator["state"] != inv.RUNNING
                return not_declaring and (came_back or persisted)
        return False


async def check_ownership(case, rec, ctx):
    d = None
    instruments = []
    logs = []

    def session_setup(session):
        ins = OwnershipInstrument(wellformed=False, dispatch=False, fail_fast=False)
        ins.install(session)
        instruments.append(ins)

    def raise_finding(i):
        ins = instruments[-1]
        if ins.findings:
            sig, msg = ins.findings[0]
            if sig == "ownership/glob-matches-built-path" and _glob_window(logs + [
                    getattr(ins.session, "steplog", [])], msg):
                sig = ("ownership/glob-matches-output-declared-before-the-pattern-and-built-"
                       "after-it")
            raise Violation(f"{PROPERTY}/{sig}",
                            f"stage {i}: {msg}; chaos {case['stages'][i].get('chaos')}; edits "
                            f"{[s['edit'] for s in case['stages']]}")

    def after_stage(i, r, ledger):
        ins = instruments[-1]
        rec.evaluations += ins.counts["commits"]
        if r.result.observer_failures:
            raise Violation(f"{PROPERTY}/observer-failed", str(r.result.observer_failures[0])[:3000])
        raise_finding(i)
        logs.append(r.result.steplog)
        check_serve_health(PROPERTY, r, i)
        if r.result.rejections:
            rec.mark_nontrivial([case["stages"][i]["spec"], i],
                                sample={"stage": i, "chaos": case["stages"][i].get("chaos"),
                                        "rejected": [(x[1], x[3][:100]) for x in
                                                     r.result.rejections[:3]]})
        for _lbl, op, cls, _msg in r.result.rejections:
            rec.event(f"rejected:{op}")

    try:
        try:
            rec.evaluations -= 1
            records, ledger, d = await H.run_history(case, ctx, after_stage=after_stage,
                                                     session_setup=session_setup)
        finally:
            d = d or os.getcwd()
        if instruments:
            raise_finding(len(records) - 1)
        for i, r in enumerate(records):
            check_serve_health(PROPERTY, r, i)
    finally:
        if d:
            H.cleanup_dir(ctx, d)


def _glob_window(logs, msg):
    """Root-cause refinement for the recorded finding shared with C02: when the pattern was
    registered, the matching output had been declared already (in this build or an earlier one)
    but was not on disk, so the client's scan did not report it and register_nglob, which only
    validates reported matches, accepted the pattern. A pattern registered BEFORE the output was
    declared is a different failure (that of _raise_if_glob_match) and keeps the generic
    signature."""
    pattern = msg.split("pattern ")[1].split(" of ")[0].strip("'")
    path = msg.split(" matches ")[1].split(", which")[0]
    declared = []  # (stage, t)
    globs = []  # (stage, t, saw_it)
    for k, log in enumerate(logs):
        for e in log:
            if e["op"] == "define" and path in (e["spec"].get("out", []) + e["spec"].get("vol", [])):
                declared.append((k, e["t"]))
            elif e["op"] == "amend" and path in (e["spec"].get("out", []) + e["spec"].get("vol", [])):
                declared.append((k, e["t"]))
            elif e["op"] == "glob" and e["pattern"] == pattern:
                globs.append((k, e["t"], path in e["matches"]))
            elif e["op"] == "static" and pattern in e.get("patterns", []):
                globs.append((k, e["t"], path in e.get("pattern_matches", {}).get(pattern, [])))
    if not globs or not declared:
        return False
    k, t, saw = globs[-1]
    return saw is False and min(declared) < (k, t)


# ---------------------------------------------------------------------------------------------
# either order

PATHS = ["cf/a.txt", "cf/deep/c.txt", "cx/o1.out", "cx/deep/o3.out"]
DIRS = ["cf/", "cf/deep/", "cx/"]
GLOBS = ["cf/*.txt", "cx/*.out", "cf/**", "c?/*", "cx/**"]


@st.composite
def _decl(draw, cmd):
    kind = draw(st.sampled_from(["S", "S", "T", "G", "O", "O", "V", "I", "AO", "AV", "AI"]))
    if kind == "S":
        return ["S", draw(st.sampled_from(PATHS))]
    if kind == "T":
        return ["T", draw(st.sampled_from(DIRS))]
    if kind == "G":
        return ["G", draw(st.sampled_from(GLOBS))]
    return [kind, draw(st.sampled_from(PATHS)), cmd]


def decl_op(decl):
    kind = decl[0]
    if kind == "S":
        return ["static_raw", [], [decl[1]], []]
    if kind == "T":
        return ["static_raw", [decl[1]], [], []]
    if kind == "G":
        return ["glob", decl[1], {}]
    if kind in ("O", "V", "I"):
        spec = {"cmd": decl[2], "inp": [], "out": [], "vol": [], "env": [], "workdir": ".",
                "need": "optional"}
        spec[{"O": "out", "V": "vol", "I": "inp"}[kind]] = [decl[1]]
        return ["step", spec]
    key = {"AO": "out", "AV": "vol", "AI": "inp"}[kind]
    return ["amend", {key: [decl[1]]}]


@st.composite
def _order_cases(draw):
    a = draw(_decl("./ca.py"))
    b = draw(_decl("./cb.py"))
    creators = draw(st.sampled_from(["same", "same", "root-sub", "sub-root"]))
    # files on disk: the static sources exist; the output paths may or may not exist
    on_disk = draw(st.lists(st.sampled_from(["cx/o1.out", "cx/deep/o3.out"]), max_size=2,
                            unique=True))
    return {"a": a, "b": b, "creators": creators, "on_disk": sorted(on_disk),
            "repeat": draw(st.booleans()), "njob": draw(st.integers(2, 3))}


def order_spec(case, seq):
    """Project whose plans make the declarations of `seq` (list of ('a'|'b')) in that order."""
    sources = {"cf/a.txt": "a\n", "cf/deep/c.txt": "c\n"}
    for p in case["on_disk"]:
        sources[p] = "left over\n"
    who = {"a": "plan.py", "b": "plan.py"}
    if case["creators"] == "root-sub":
        who["b"] = "sub/plan.py"
    elif case["creators"] == "sub-root":
        who["a"] = "sub/plan.py"
    root, sub = [], []
    two = "sub/plan.py" in who.values() and len({who[x] for x in seq}) == 2
    items = {"plan.py": root, "sub/plan.py": sub}
    if not two:
        if any(who[x] == "sub/plan.py" for x in seq):
            root.append(["plan", "sub/plan.py"])
        for x in seq:
            items[who[x]].append(["chaos", ["try", decl_op(case[x])]])
    else:
        first, second = seq
        if who[first] == "plan.py":
            # the root plan declares first and only then starts the sub-plan
            root.append(["chaos", ["try", decl_op(case[first])]])
            root.append(["plan", "sub/plan.py"])
            sub.append(["chaos", ["try", decl_op(case[second])]])
        else:
            # the sub-plan goes first: the root plan idles before its own declaration
            root.append(["plan", "sub/plan.py"])
            sub.append(["chaos", ["try", decl_op(case[first])]])
            for _ in range(8):
                root.append(["pause"])
            root.append(["chaos", ["try", decl_op(case[second])]])
    plans = {"plan.py": {"workdir": ".", "items": root}}
    if sub or any(it[0] == "plan" for it in root):
        plans["sub/plan.py"] = {"workdir": "sub", "items": sub}
    return {"sources": sources, "steps": {}, "env": {}, "plans": plans, "static_style": {}}


REQUEST_OPS = ("static", "glob", "define", "amend")


def outcomes(result, nexpected):
    """[(time, label, accepted)] of the declaration requests of a build, in arrival order."""
    out = []
    log = result.steplog
    for k, e in enumerate(log):
        if e["op"] not in REQUEST_OPS:
            continue
        if e["op"] == "static" and not e.get("raw"):
            continue
        if e["op"] == "define" and e["spec"].get("need") == "plan":
            continue
        nxt = next((x for x in log[k + 1:] if x["label"] == e["label"]), None)
        rejected = nxt is not None and nxt["op"] == "rejected"
        out.append((e["t"], e["label"], not rejected))
    return out


async def build(case, seq, ctx, tail):
    d = ctx.scratch.fresh("order")
    os.chdir(d)
    spec = order_spec(case, seq)
    cfg = {"njob": case["njob"], "choices": [], "resources": None, "keep_going": True,
           "do_clean": False}

    def session_setup(session):
        session.pump.tail = tail

    r, _ = await H.run_stage(spec, cfg, H.Ledger(), set(), session_setup=session_setup)
    return r, d


async def check_order(case, rec, ctx):
    dirs = []
    try:
        results = {}
        for name, seq in (("a", ["a"]), ("b", ["b"]), ("ab", ["a", "b"]), ("ba", ["b", "a"])):
            # when the sub-plan has to go first, it gets every turn while both are parked
            r, d = await build(case, seq, ctx, tail="last")
            dirs.append(d)
            check_serve_health(PROPERTY, r, name)
            got = outcomes(r.result, len(seq))
            if len(got) != len(seq):
                rec.event("discarded:request-not-sent")
                return
            results[name] = (got, r)
        alone_a, alone_b = results["a"][0][0][2], results["b"][0][0][2]
        rec.event(f"alone:{int(alone_a)}{int(alone_b)}")
        if not (alone_a and alone_b):
            return
        # the arrival orders must be the intended ones
        who = {"a": "./plan.py", "b": "./plan.py"}
        if case["creators"] == "root-sub":
            who["b"] = "./plan.py  # wd=sub"
        elif case["creators"] == "sub-root":
            who["a"] = "./plan.py  # wd=sub"
        for name, seq in (("ab", "ab"), ("ba", "ba")):
            labels = [lbl for _t, lbl, _acc in results[name][0]]
            if labels != [who[x] for x in seq]:
                rec.event("discarded:arrival-order-not-as-intended")
                return
        (_, _, first_ab), (_, _, second_ab) = results["ab"][0]
        (_, _, first_ba), (_, _, second_ba) = results["ba"][0]
        desc = f"A={case['a']} B={case['b']} creators={case['creators']} on_disk={case['on_disk']}"
        if not first_ab or not first_ba:
            raise Violation(f"{PROPERTY}/first-declaration-refused-although-acceptable-alone",
                            f"{desc}: {results['ab'][0]} / {results['ba'][0]}")
        if second_ab != second_ba:
            kinds = "+".join(sorted([case["a"][0], case["b"][0]]))
            refused = "B after A" if not second_ab else "A after B"
            texts = [m for _l, _o, _c, m in results["ab"][1].result.rejections
                     + results["ba"][1].result.rejections]
            sig = f"conflict-refused-in-one-order-only/{kinds}"
            pa, pb = case["a"][1], case["b"][1]
            if kinds == "T+T" and case["creators"] == "same" and pa != pb \
                    and (pa.startswith(pb) or pb.startswith(pa)):
                # root-cause refinement (recorded finding, pinned by the repository's tests)
                sig = "nested-trees-of-one-creator-accepted-outer-first-refused-inner-first"
            glob_side = [x for x in (case["a"], case["b"]) if x[0] == "G"]
            out_side = [x for x in (case["a"], case["b"]) if x[0] in ("O", "V", "AO", "AV")]
            if glob_side and out_side and out_side[0][1] not in case["on_disk"]:
                first_is_glob = (refused == "B after A") == (case["a"][0] == "G")
                if first_is_glob:
                    # root-cause refinement (recorded finding shared with C02): the pattern is
                    # only validated against paths that exist when it is registered
                    sig = "glob-after-declared-unbuilt-output-accepted"
            raise Violation(
                f"{PROPERTY}/{sig}",
                f"{desc}: only {refused} is refused ({texts[:1]}); the other order is accepted")
        if not second_ab:
            rec.mark_nontrivial([case["a"], case["b"], case["creators"]],
                                sample={"A": case["a"], "B": case["b"],
                                        "creators": case["creators"],
                                        "refusal": [m[:140] for _l, _o, _c, m in
                                                    results["ab"][1].result.rejections][:1]})
            rec.event("conflict:" + "+".join(sorted([case["a"][0], case["b"][0]])))
        else:
            rec.event("compatible")
        # repeating a static declaration by the same creator is a no-op
        if case["repeat"] and case["a"][0] in ("S", "T", "G"):
            await check_repeat(case, rec, ctx, dirs)
    finally:
        os.chdir(ctx.scratch.root)
        for d in dirs:
            H.cleanup_dir(ctx, d)


async def check_repeat(case, rec, ctx, dirs):
    d = ctx.scratch.fresh("repeat")
    dirs.append(d)
    os.chdir(d)
    twice = dict(case, creators="same")
    spec = order_spec(twice, ["a", "a"])
    snaps = []

    def session_setup(session):
        ins = Instrument(wellformed=False, dispatch=False, per_task=True, fail_fast=False)
        ins.install(session)
        snaps.append(ins)
        orig = ins.call_finished

        def call_finished(ctx_, opname, outcome):
            ins.after_calls = getattr(ins, "after_calls", [])
            ins.after_calls.append((opname, outcome, copy.deepcopy(ins.prev.tables)
                                    if ins.prev else None))
            orig(ctx_, opname, outcome)

        ins.call_finished = call_finished
        session.call_hooks[-1] = ins

    cfg = {"njob": 1, "choices": [], "resources": None, "keep_going": True, "do_clean": False}
    r, _ = await H.run_stage(spec, cfg, H.Ledger(), set(), session_setup=session_setup)
    check_serve_health(PROPERTY, r, "repeat")
    calls = [c for c in getattr(snaps[-1], "after_calls", [])
             if c[0] in ("declare_static", "register_glob")]
    # the root plan's own leading static() call (plan scripts) comes first, if any
    calls = calls[-2:]
    if len(calls) < 2 or calls[0][1] != "accepted":
        return
    if calls[1][1] != "accepted":
        raise Violation(f"{PROPERTY}/repeated-declaration-refused/{case['a'][0]}",
                        f"{case['a']} twice by the same plan: second request {calls[1][1]}; "
                        f"{r.result.rejections}")
    before, after = calls[0][2], calls[1][2]
    # (a glob is a query, not a declaration with a role: it is recorded once per call)
    if before is not None and after is not None and case["a"][0] != "G":
        strip = lambda t: {k: [{c: v for c, v in row.items() if not c.startswith("_check")}
                               for row in rows] for k, rows in t.items()}
        if strip(before) != strip(after):
            from harness.instrument import table_diff
            raise Violation(f"{PROPERTY}/repeated-declaration-changed-workflow/{case['a'][0]}",
                            f"{case['a']} twice by the same plan: "
                            + table_diff(strip(before), strip(after)))
    rec.event("repeat-is-noop:" + case["a"][0])


def subchecks(tier):
    big = tier == "thorough"
    return [
        SubCheck("ownership", check_ownership, strategy=specgen.chaos_histories,
                 examples=120_000 if big else 3_000),
        SubCheck("either_order", check_order, strategy=_order_cases,
                 examples=120_000 if big else 3_000),
    ]


MANIFEST = {
    "engine": "E1-SimStepUp + commit instrumentation",
    "technique": "stateful property testing (ownership invariants over raw tables after every "
                 "commit of generated request histories) and a metamorphic relation (a pair of "
                 "declarations applied in both orders and alone on identical projects)",
    "level_text": "Exploration; the pair grammar has 11 kinds x 4-5 arguments per side and 3 "
                  "creator layouts, sampled; every commit of the chaos histories is judged.",
    "level_note": "requests through the DirectorHandler of a real serve(); paths as sent by the "
                  "client after normalisation",
}
