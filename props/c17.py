"""C17  Named glob matching is consistent with the file system and with itself.

All oracles are built from the standard library (`glob.glob(recursive=True, include_hidden=True)`,
`glob.escape`, `fnmatch`) plus enumeration of candidate substrings for repeated names; none of
them uses `convert_nglob_to_regex` / `convert_nglob_to_glob` except where the property itself
refers to "the pattern's matcher".
"""

import contextlib
import fnmatch
import glob as stdglob
import itertools
import os

from hypothesis import strategies as st

from harness.common import SubCheck, Violation

PROPERTY = "C17"
LEVEL = "exploration"
RULE = (
    "Hypothesis draws a pattern AST (components of literal/*/?/[ab]/[!a]/named atoms, full-"
    "component **, optional trailing slash, names x,y with optional substitutions, possibly "
    "repeated) and a directory tree of <= 9 entries over component names {a,b,ab,ba,.a,a.b,_} "
    "(hidden entries, empty directories, nesting <= 3), plus a second tree for change sets. "
    "Checked: recorded set == stdlib recursive glob (no repeated names) / == union over candidate "
    "values of the stdlib glob of the value-substituted pattern (repeated names); captures "
    "re-validated by substitution; recorded set == existing paths accepted by the stored regex; "
    "anonymous * -> fresh named wildcard leaves the set unchanged; will_change(deleted, added) == "
    "fresh scan of the second tree. Non-trivial = pattern has a wildcard and at least one match "
    "and at least one non-match exist in the tree; distinct by (pattern, tree)."
)
ASSUMPTIONS = [
    "Python's glob.glob(recursive=True, include_hidden=True) is the 'standard recursive glob'.",
    "Directories are represented with a trailing slash, as NamedGlob.glob documents.",
    "Substitutions for repeated named wildcards are single-component patterns; names that "
    "occur once may have substitutions that span directories ('*/*', '**/*', '**/', '*/').",
]

_NAMES = ["a", "b", "ab", "ba", ".a", "a.b", "_"]
_LIT = st.sampled_from(["a", "b", ".", "_", "ab", "a.b", ".a"])
_SUBS = [None, None, "*", "?*", "[ab]", "a*", "?", "*b", "[!a]*", "*/*", "**/*", "**/", "*/"]


def _atom():
    return st.one_of(
        _LIT.map(lambda s: ["lit", s]),
        _LIT.map(lambda s: ["lit", s]),
        st.just(["star"]),
        st.just(["star"]),
        st.just(["q"]),
        st.sampled_from(["[ab]", "[!a]", "[a.]", "[!.]"]).map(lambda s: ["cls", s]),
        st.sampled_from(["x", "y"]).map(lambda n: ["name", n]),
        st.sampled_from(["x", "y"]).map(lambda n: ["name", n]),
    )


_COMPONENT = st.one_of(
    st.lists(_atom(), min_size=1, max_size=3).map(lambda atoms: ["comp", atoms]),
    st.lists(_atom(), min_size=1, max_size=3).map(lambda atoms: ["comp", atoms]),
    st.lists(_atom(), min_size=1, max_size=3).map(lambda atoms: ["comp", atoms]),
    st.just(["rec"]),
)
_PATTERN = st.fixed_dictionaries(
    {
        "comps": st.lists(_COMPONENT, min_size=1, max_size=4),
        "trailing": st.booleans().map(lambda b: b and True),
        "subs": st.fixed_dictionaries({"x": st.sampled_from(_SUBS), "y": st.sampled_from(_SUBS)}),
    }
)
_ENTRY = st.tuples(
    st.lists(st.sampled_from(_NAMES), min_size=1, max_size=3), st.sampled_from(["f", "f", "d"])
).map(list)
_TREE = st.lists(_ENTRY, min_size=0, max_size=9)
_CASE = st.fixed_dictionaries(
    {
        "pattern": _PATTERN,
        "tree": _TREE,
        "tree2": _TREE,
        "star_k": st.integers(0, 5),
        "noise": st.lists(st.tuples(st.sampled_from(["del", "add"]),
                                    st.lists(st.sampled_from(_NAMES), min_size=1, max_size=3),
                                    st.booleans()).map(list), max_size=3),
    }
)


def render(pat, names_as=None, replace_star=None):
    """Render a pattern AST.

    names_as: None keeps `${*n}`; a dict maps a name to the text that replaces it.
    replace_star: index of the anonymous star that becomes `${*zz}`.
    """
    out = []
    nstar = 0
    for comp in pat["comps"]:
        if comp[0] == "rec":
            out.append("**")
            continue
        s = ""
        for atom in comp[1]:
            kind = atom[0]
            if kind == "lit":
                s += atom[1]
            elif kind == "star":
                if replace_star is not None and nstar == replace_star:
                    s += "${*zz}"
                else:
                    s += "*"
                nstar += 1
            elif kind == "q":
                s += "?"
            elif kind == "cls":
                s += atom[1]
            elif kind == "name":
                if names_as is not None and atom[1] in names_as:
                    text = names_as[atom[1]]
                    if "/" in text:
                        text = text.replace("**", "\x00\x00")  # recursive by substitution
                    s += text
                else:
                    s += "${*" + atom[1] + "}"
        if s == "":
            return None
        if names_as is not None:
            # Substituted sub-patterns sit next to other stars: `*` + `*` is still one
            # single-component star for the standard glob, never the recursive `**`.
            while "**" in s:
                s = s.replace("**", "*")
            s = s.replace("\x00\x00", "**")
        out.append(s)
    text = "/".join(out)
    if pat["trailing"]:
        text += "/"
    return text


def normalize_pattern(pat):
    """Keep the pattern root-relative and normalized: no component that is exactly '.' or '..'."""
    comps = []
    for comp in pat["comps"]:
        if comp[0] == "comp" and all(a[0] == "lit" for a in comp[1]) and \
                "".join(a[1] for a in comp[1]) in (".", ".."):
            comp = ["comp", [["lit", "a"]]]
        if comp[0] == "comp" and [a[0] for a in comp[1]] == ["star", "star"]:
            # A component that is exactly `**` is the recursive wildcard, not two stars.
            comp = ["rec"]
        comps.append(comp)
    subs = dict(pat["subs"])
    counts = {}
    for comp in comps:
        if comp[0] == "comp":
            for a in comp[1]:
                if a[0] == "name":
                    counts[a[1]] = counts.get(a[1], 0) + 1
    for n, sub in list(subs.items()):
        # Substitutions that span directories are only used for names that occur once: for a
        # repeated name the oracle enumerates single-component candidate values.
        if sub is not None and "/" in sub and counts.get(n, 0) > 1:
            subs[n] = None
        # ... and only where the wildcard starts a path component and is followed by a literal,
        # so that the `**` of the substitution is a complete component for the standard glob too.
        if sub is not None and "/" in sub and subs[n] is not None:
            ok = True
            for comp in comps:
                if comp[0] == "comp":
                    for k, a in enumerate(comp[1]):
                        if a[0] == "name" and a[1] == n:
                            nxt = comp[1][k + 1] if k + 1 < len(comp[1]) else None
                            if k != 0 or (nxt is not None and nxt[0] != "lit") or \
                                    (nxt is None and sub.endswith("/")):
                                ok = False
            if not ok:
                subs[n] = None
    result = {"comps": comps, "trailing": pat["trailing"], "subs": subs}
    # A directory-spanning substitution may not create a '.' or '..' component either.
    plain = render(result, names_as={n: (sub or "*") for n, sub in subs.items()})
    if plain is None or any(c in (".", "..") for c in plain.split("/")):
        result["subs"] = {n: (None if sub is not None and "/" in sub else sub)
                          for n, sub in subs.items()}
    return result


def count_stars(pat):
    return sum(1 for c in pat["comps"] if c[0] == "comp" for a in c[1] if a[0] == "star")


def name_counts(pat):
    counts = {}
    for c in pat["comps"]:
        if c[0] == "comp":
            for a in c[1]:
                if a[0] == "name":
                    counts[a[1]] = counts.get(a[1], 0) + 1
    return counts


def build_tree(entries):
    """Create the entries under cwd; later entries that conflict with earlier ones are skipped."""
    made = []
    for comps, kind in entries:
        path = "/".join(comps)
        try:
            if kind == "d":
                os.makedirs(path, exist_ok=True)
            else:
                parent = os.path.dirname(path)
                if parent:
                    os.makedirs(parent, exist_ok=True)
                if os.path.isdir(path):
                    continue
                with open(path, "w"):
                    pass
            made.append(path)
        except (FileExistsError, NotADirectoryError):
            continue
    return made


def existing_paths():
    """All paths under cwd in StepUp's representation (directories with trailing slash)."""
    result = set()
    for root, dirs, files in os.walk("."):
        rel = os.path.relpath(root, ".")
        prefix = "" if rel == "." else rel + "/"
        for d in dirs:
            result.add(prefix + d + "/")
        for f in files:
            result.add(prefix + f)
    return result


def norm_glob(pattern):
    result = set()
    if pattern is None:
        return result
    body = pattern[:-1] if pattern.endswith("/") else pattern
    if any(c in ("", ".", "..") for c in body.split("/")):
        # No normalized path has such a component; stdlib would resolve it lexically instead.
        return result
    for p in stdglob.glob(pattern, recursive=True, include_hidden=True):
        if p == "" or not os.path.lexists(p):
            # CPython < 3.13 yields `dir/` for `dir/**` even when `dir` does not exist.
            continue
        if os.path.isdir(p) and not p.endswith("/"):
            p += "/"
        result.add(p)
    return result


def candidates(paths, sub):
    comps = set()
    for p in paths:
        comps.update(c for c in p.split("/") if c)
    values = {""}
    for c in comps:
        for i in range(len(c)):
            for j in range(i + 1, len(c) + 1):
                values.add(c[i:j])
    pat = "*" if sub is None else sub
    return sorted(v for v in values if fnmatch.fnmatchcase(v, pat))


def expected_matches(pat, existing):
    """The truth according to the statement, from stdlib pieces only."""
    counts = name_counts(pat)
    subs = {n: (pat["subs"].get(n) or "*") for n in counts}
    repeated = sorted(n for n, c in counts.items() if c > 1)
    single = {n: subs[n] for n in counts if n not in repeated}
    if not repeated:
        return norm_glob(render(pat, names_as=single))
    result = set()
    cand = [candidates(existing, pat["subs"].get(n)) for n in repeated]
    if len(cand) == 2 and len(cand[0]) * len(cand[1]) > 600:
        return None
    for values in itertools.product(*cand):
        names_as = dict(single)
        for n, v in zip(repeated, values):
            names_as[n] = stdglob.escape(v)
        result |= norm_glob(render(pat, names_as=names_as))
    return result


_NEG_CLASS = __import__("re").compile(r"\[\^(?!/)")


def _label(pat, regex_pattern, path, direction, existing=None):
    """Name the root cause of one discrepant path, or None when it is not a recorded one.

    The tests are stated on the path and the stored regex only:
    A. a negated character class of the regex consumes a '/' (stdlib classes never cross a
       component): the path is rejected once '/' is excluded from every negated class;
    B. a directory match is dropped because only patterns ending in a star get the optional
       trailing separator: the regex accepts the directory name without its slash;
    C. the pattern's last component matched the empty string, so that the separator of the
       pattern consumed the trailing slash of a directory with one component less.
    """
    import re

    if direction == "unexpected" and existing is not None and path not in existing:
        return "nonexistent-directory-recorded-for-recursive-pattern"
    if direction == "unexpected" and re.fullmatch(regex_pattern, path):
        repaired_a = _NEG_CLASS.sub("[^/", regex_pattern)
        if repaired_a != regex_pattern and not re.fullmatch(repaired_a, path):
            return "negated-class-matches-separator"
        repaired_c = _repair_empty_last(pat, regex_pattern)
        if repaired_c is not None and not re.fullmatch(repaired_c, path):
            return "last-component-matches-empty"
        # both recorded causes together (each alone leaves another wrong parse of the path)
        repaired_ac = _repair_empty_last(pat, repaired_a)
        if repaired_ac is not None and repaired_a != regex_pattern and \
                not re.fullmatch(repaired_ac, path):
            return "negated-class-matches-separator"
    if direction == "missing":
        if path.endswith("/") and not re.fullmatch(regex_pattern, path) and \
                re.fullmatch(regex_pattern, path[:-1]) and not _ends_in_star(pat):
            return "directory-match-dropped-when-pattern-does-not-end-in-star"
    return None


def _ends_in_star(pat):
    """The pattern's last atom is star-like (anonymous star, recursive wildcard, or the first
    occurrence of a named wildcard whose sub-pattern is the default or spelled out as '*'):
    the documented case in which a directory match keeps its trailing separator."""
    last = pat["comps"][-1]
    if last[0] == "rec":
        return True
    atom = last[1][-1]
    if atom[0] == "star":
        return True
    if atom[0] == "name":
        seen = [a[1] for comp in pat["comps"] if comp[0] == "comp" for a in comp[1]
                if a[0] == "name"]
        first_occurrence = seen.count(atom[1]) == 1
        return first_occurrence and pat["subs"].get(atom[1]) in (None, "*")
    return False


def _repair_empty_last(pat, regex_pattern):
    """The stored regex plus the requirement that the pattern's last component is not empty."""
    if pat["trailing"]:
        return None
    if regex_pattern.endswith("/?"):
        return regex_pattern[:-2] + "(?<=[^/])/?"
    return regex_pattern + "(?<=[^/])"


def _label_capture(pat, regex_pattern, path, used):
    """Root cause of a capture that does not reproduce its match, or None."""
    import re

    for name, repaired in (
        ("negated-class-matches-separator", _NEG_CLASS.sub("[^/", regex_pattern)),
        ("last-component-matches-empty", _repair_empty_last(pat, regex_pattern)),
    ):
        if repaired is None or repaired == regex_pattern:
            continue
        m = re.fullmatch(repaired, path)
        if m is None:
            return name
        names_as = {n: stdglob.escape(m.groupdict()[n]) for n in used}
        if path in norm_glob(render(pat, names_as=names_as)):
            return name
    return None


def _raise_labelled(kind, pat, regex_pattern, missing, unexpected, message, existing=None):
    labels = set()
    for p in missing:
        labels.add(_label(pat, regex_pattern, p, "missing", existing))
    for p in unexpected:
        labels.add(_label(pat, regex_pattern, p, "unexpected", existing))
    if None in labels or not labels:
        raise Violation(f"C17/{kind}", message)
    # Several recorded root causes at once: report under the first one (each is listed anyway).
    raise Violation("C17/" + sorted(labels)[0], f"[{kind}] {message}")


def check_case(case, rec, ctx):
    from stepup.core.nglob import NamedGlob

    pat = normalize_pattern(case["pattern"])
    text = render(pat)
    subs = {n: s for n, s in pat["subs"].items() if s is not None and n in name_counts(pat)}
    d = ctx.scratch.fresh("tree")
    d2 = ctx.scratch.fresh("tree")
    try:
        with contextlib.chdir(d):
            build_tree(case["tree"])
            existing = existing_paths()
            ng = NamedGlob(text, dict(subs))
            ng.glob()
            rx = ng._regex.pattern
            got = {str(p) for p in ng.files()}
            expected = expected_matches(pat, existing)
            if expected is None:
                rec.event("skipped:too-many-candidate-values")
                expected = got
            rec.event("repeated-name" if any(c > 1 for c in name_counts(pat).values())
                      else ("named" if name_counts(pat) else "anonymous-only"))
            context = (f"pattern {text!r} subs {subs} tree {sorted(existing)} "
                       f"(regex {rx!r}, glob {ng._glob_pattern!r})")
            if got != expected:
                missing = sorted(expected - got)
                extra = sorted(got - expected)
                _raise_labelled("recorded-set-differs-from-standard-glob", pat, rx, missing, extra,
                                f"{context}: missing {missing} unexpected {extra}", existing)
            # (a)/(f): the recorded set is exactly the existing paths the stored matcher accepts.
            accepted = {p for p in existing if ng._regex.fullmatch(p)}
            if accepted != got:
                _raise_labelled("regex-and-glob-conversion-disagree", pat, rx,
                                sorted(got - accepted), sorted(accepted - got),
                                f"{context}: regex accepts {sorted(accepted)}, recorded "
                                f"{sorted(got)}", existing)
            # (d): captures, validated by substituting them back.
            used = sorted(name_counts(pat))
            for values, paths in ng.results.items():
                if len(values) != len(used):
                    raise Violation("C17/result-key-arity", f"{text!r}: {values} vs names {used}")
                names_as = {n: stdglob.escape(v) for n, v in zip(used, values)}
                justified = norm_glob(render(pat, names_as=names_as))
                for p in paths:
                    if str(p) not in justified:
                        label = _label_capture(pat, rx, str(p), used)
                        raise Violation(
                            "C17/" + (label or "capture-does-not-reproduce-match"),
                            f"[capture-does-not-reproduce-match] {context}: path {p!r} recorded "
                            f"under {dict(zip(used, values))} but the substituted pattern "
                            f"matches {sorted(justified)}")
            # extend() on the full listing equals glob() (both ways of collecting agree).
            ng_list = NamedGlob(text, dict(subs))
            ng_list.extend(sorted(existing))
            if ng_list.results != ng.results:
                raise Violation("C17/extend-and-glob-disagree",
                                f"{text!r}: {ng_list.results} vs {ng.results}")
            # (c): replacing an anonymous star by a fresh named wildcard.
            nstars = count_stars(pat)
            if nstars:
                k = case["star_k"] % nstars
                text2 = render(pat, replace_star=k)
                ng2 = NamedGlob(text2, dict(subs))
                ng2.glob()
                got2 = {str(p) for p in ng2.files()}
                rec.event("star-to-named")
                if got2 != got:
                    # One of the two spellings deviates from the standard glob; it was either
                    # reported above (got != expected) or is reported here for the named one.
                    _raise_labelled("named-star-changes-matches", pat, ng2._regex.pattern,
                                    sorted(got - got2), sorted(got2 - got),
                                    f"{text!r} -> {text2!r} on {sorted(existing)}: {sorted(got)} "
                                    f"vs {sorted(got2)} (regex {ng2._regex.pattern!r})")
            has_wild = any(c[0] == "rec" or any(a[0] != "lit" for a in c[1])
                           for c in pat["comps"])
            if has_wild and got and (existing - got):
                rec.mark_nontrivial([text, subs, sorted(existing)],
                                    sample={"pattern": text, "subs": subs,
                                            "tree": sorted(existing), "matches": sorted(got)})
        # (e): will_change against a fresh scan of a second tree.
        with contextlib.chdir(d2):
            build_tree(case["tree2"])
            existing2 = existing_paths()
            fresh = NamedGlob(text, dict(subs))
            fresh.glob()
        deleted = set(existing - existing2)
        added = set(existing2 - existing)
        for kind, comps, as_dir in case["noise"]:
            p = "/".join(comps) + ("/" if as_dir else "")
            if kind == "del" and p not in existing2:
                deleted.add(p)  # deleting something that is not there (any more)
            elif kind == "add" and p in existing2:
                added.add(p)  # a modified file is reported as updated
        added -= deleted
        evolved = ng.will_change(deleted, added)
        new_results = ng.results if evolved is None else evolved.results
        if evolved is not None and evolved.results == ng.results:
            raise Violation("C17/will-change-reports-change-without-change", text)
        rec.event("will_change:changed" if evolved is not None else "will_change:same")
        if new_results != fresh.results:
            upd = {str(p) for ps in new_results.values() for p in ps}
            frs = {str(p) for ps in fresh.results.values() for p in ps}
            message = (f"pattern {text!r} subs {subs} (regex {rx!r}): old tree "
                       f"{sorted(existing)}, new tree {sorted(existing2)}, deleted "
                       f"{sorted(deleted)}, added {sorted(added)}: updated {new_results} vs "
                       f"fresh scan {fresh.results}")
            if upd == frs:
                raise Violation("C17/will-change-captures-differ-from-rescan", message)
            ghosts = {p for p in frs - upd if p not in existing2}
            if ghosts:
                raise Violation("C17/nonexistent-directory-recorded-for-recursive-pattern",
                                "[will-change-differs-from-rescan] " + message)
            _raise_labelled("will-change-differs-from-rescan", pat, rx, sorted(frs - upd),
                            sorted(upd - frs), message)
    finally:
        ctx.scratch.release(d)
        ctx.scratch.release(d2)


def subchecks(tier):
    big = tier == "thorough"
    return [SubCheck("nglob_vs_stdlib", check_case, strategy=_CASE,
                     examples=2_000_000 if big else 160_000)]


MANIFEST = {
    "engine": "E4-pure",
    "technique": "property-based testing: Hypothesis pattern ASTs x generated directory trees, "
                 "differential against stdlib glob/fnmatch, metamorphic star->named rewrite, "
                 "incremental-vs-rescan comparison",
    "level_text": "Exploration: tens of thousands (quick) to a million (thorough) pattern/tree "
                  "pairs on a real file system, differential against the standard library in "
                  "both directions (missing and unexpected matches).",
    "level_note": "stdlib glob is the reference for 'standard recursive glob'; substitutions are "
                  "single-component; small alphabets so that matches and near-misses are frequent",
}
