"""C19  Exit status and final report tell the truth about the build.

Engine E1. Every build of generated histories (failing steps, missing inputs, unsatisfiable
resources, dynamic cycles, stale deferrals, keep-going, targets) is a case: the return code of
`serve()` and the PendingSummary are compared with the final tables.
"""

import os

from hypothesis import strategies as st

from harness import history as H
from harness import specgen
from harness.common import SubCheck, Violation
from props.c01 import check_serve_health
from props.c11 import _cases as target_cases

PROPERTY = "C19"
LEVEL = "exploration"
RULE = (
    "Every build of (a) C01-style histories (failing steps, dropped producers, resources that "
    "are never available, deferrals) and (b) C11-style target builds is judged: FAILED bit <=> an "
    "attached FAILED step, a recorded glob match that is a build product, or an invalid target; "
    "PENDING bit <=> not draining and an attached PENDING step whose need by definition exceeds "
    "the threshold; DRAINED bit <=> the scheduler was draining; zero => every needed step "
    "SUCCEEDED, no missing target, no unjustified match; summary: attributed totals + cyclic == "
    "ntotal == independent count, runnable == 0 unless draining, each table row <= ntotal. "
    "Non-trivial = the build left at least one step pending or failed; distinct by history."
)
ASSUMPTIONS = [
    "The exit bits INTERNAL and INTERRUPTED are added by the terminal front end and are not "
    "produced by serve(); they are out of reach of this engine.",
]


def judge(i, r, rec):
    from stepup.core.enums import Need, ReturnCode, StepState

    rc = r.result.returncode
    if rc is None or r.result.tables is None:
        return False
    tables = r.result.tables
    targets = [t for t in r.config.get("targets", []) if not t.endswith("/")]
    target_dirs = [t for t in r.config.get("targets", []) if t.endswith("/")]
    report = r.result.end_report
    sstates = H.step_states(tables)
    failed = sorted(lbl for lbl, (st_, det) in sstates.items()
                    if st_ == StepState.FAILED.value and not det)
    need = H.needed_steps(tables, targets, target_dirs)
    threshold = Need.DEFAULT.value if (targets or target_dirs) else Need.OPTIONAL.value
    pending = sorted(lbl for lbl, (st_, det) in sstates.items()
                     if st_ == StepState.PENDING.value and not det and need[lbl] > threshold)
    draining = bool(r.result.draining)
    early_invalid_target = any(t == "ERROR" and d.startswith("Invalid build target")
                               for t, d, _ in r.result.events)
    where = f"stage {i} (rc={rc!r}, targets={r.config.get('targets')})"
    if early_invalid_target:
        if not rc & ReturnCode.FAILED:
            raise Violation(f"{PROPERTY}/invalid-target-without-failed-bit", where)
        return True
    glob_errors = report["glob_errors"] if report else []
    from stepup.core.enums import TARGET_FORBIDDEN_STATES, FileState

    fstates = H.file_states(tables)
    invalid_targets = sorted(t for t in targets if t in fstates and not fstates[t][1]
                             and FileState(fstates[t][0]) in TARGET_FORBIDDEN_STATES)
    exp_failed = bool(failed) or (bool(invalid_targets) and not draining)
    # the glob check only runs when nothing else was wrong
    nothing_else = not failed and not draining and not pending and not invalid_targets and not (
        report and (report["missing_targets"] or report["missing_target_dirs"]))
    if nothing_else and glob_errors:
        exp_failed = True
    if bool(rc & ReturnCode.FAILED) != exp_failed:
        raise Violation(
            f"{PROPERTY}/failed-bit-wrong",
            f"{where}: FAILED bit is {bool(rc & ReturnCode.FAILED)}, attached FAILED steps "
            f"{failed}, glob matches that are build products {glob_errors}, targets that are "
            f"static or volatile files {invalid_targets}",
        )
    if bool(rc & ReturnCode.DRAINED) != draining:
        raise Violation(f"{PROPERTY}/drained-bit-wrong", f"{where}: draining={draining}")
    exp_pending = (not draining) and bool(pending)
    if bool(rc & ReturnCode.PENDING) != exp_pending:
        raise Violation(
            f"{PROPERTY}/pending-bit-wrong",
            f"{where}: PENDING bit is {bool(rc & ReturnCode.PENDING)}, draining={draining}, "
            f"attached PENDING steps needed by definition: {pending}",
        )
    if rc == ReturnCode(0):
        needed = [lbl for lbl, v in need.items() if v > threshold]
        notdone = [lbl for lbl in needed if sstates[lbl][0] != StepState.SUCCEEDED.value]
        if notdone:
            raise Violation(f"{PROPERTY}/zero-status-with-unbuilt-needed-step",
                            f"{where}: {notdone}")
        if report and (report["missing_targets"] or report["missing_target_dirs"]
                       or report["glob_warnings"] or report["glob_errors"]):
            raise Violation(f"{PROPERTY}/zero-status-with-questionable-finding",
                            f"{where}: {report}")
    # the summary
    if report and not draining:
        summary = report["pending_summary"]
        ntotal = summary["ntotal"]
        if ntotal != len(pending):
            raise Violation(
                f"{PROPERTY}/summary-total-differs-from-count",
                f"{where}: summary ntotal={ntotal}, independently counted pending needed steps "
                f"{pending}",
            )
        if ntotal:
            attributed = sum(report["attributed_totals"].values()) + summary["cyclic"]["nblocked"]
            if attributed != ntotal:
                raise Violation(
                    f"{PROPERTY}/summary-does-not-add-up",
                    f"{where}: attributed {report['attributed_totals']} + cyclic "
                    f"{summary['cyclic']['nblocked']} != ntotal {ntotal}",
                )
            if summary["runnable"]["nblocked"]:
                raise Violation(
                    f"{PROPERTY}/runnable-step-left-behind",
                    f"{where}: the summary says {summary['runnable']} could have run although "
                    "the build was not draining",
                )
            for row in summary["inputs"] + summary["resources"]:
                if row["nblocked"] > ntotal or row["nblocked"] < 1:
                    raise Violation(f"{PROPERTY}/summary-row-count-out-of-range",
                                    f"{where}: {row} with ntotal={ntotal}")
            for bucket in ("failed", "cyclic", "deferred", "other", "runnable"):
                b = summary[bucket]
                if (b["nblocked"] == 0) != (b["example"] is None):
                    raise Violation(f"{PROPERTY}/summary-bucket-example-mismatch",
                                    f"{where}: {bucket}={b}")
            rec.event("summary:checked")
    rec.event("rc:" + H.returncode_class(rc))
    return bool(failed or pending)


def judge_many_roots(i, r, stage, rec):
    """Exact recount for the constructed projects: every step is blocked by exactly one root."""
    report = r.result.end_report
    if not report or r.result.draining:
        return
    summary = report["pending_summary"]
    avail = set()
    if stage["build"].get("resources"):
        avail = {x.partition(":")[0] for x in stage["build"]["resources"].split(",")}
    by_input, by_res = {}, {}
    for name, sd in stage["spec"]["steps"].items():
        if sd["inp"]:
            by_input.setdefault(sd["inp"][0], []).append(name)
        for res in sd["resources"]:
            if res not in avail:
                by_res.setdefault(res, []).append(name)
    where = f"stage {i}: {stage['edit']}"
    for key, roots, hidden, hidden_blocked in (
            ("inputs", by_input, "ninputs_hidden", "ninputs_hidden_blocked"),
            ("resources", by_res, "nresources_hidden", "nresources_hidden_blocked")):
        shown = summary[key]
        if len(shown) + summary[hidden] != len(roots):
            raise Violation(
                f"{PROPERTY}/summary-loses-root-causes/{key}",
                f"{where}: {len(roots)} distinct blocking {key}, the summary shows {len(shown)} "
                f"and counts {summary[hidden]} more")
        nsteps = sum(len(v) for v in roots.values())
        accounted = sum(row["nblocked"] for row in shown) + summary[hidden_blocked]
        if accounted != nsteps:
            raise Violation(
                f"{PROPERTY}/summary-loses-blocked-steps/{key}",
                f"{where}: {nsteps} steps are blocked by {key}, the rows account for "
                f"{sum(row['nblocked'] for row in shown)} and the remainder for "
                f"{summary[hidden_blocked]}")
    rec.event("many-roots:recounted")


async def check_case(case, rec, ctx):
    d = None
    state = {"nontrivial": False}

    def after_stage(i, r, ledger):
        check_serve_health(PROPERTY, r, i)
        if judge(i, r, rec):
            state["nontrivial"] = True
        if case["stages"][i]["edit"][:1] == ["many-roots"]:
            judge_many_roots(i, r, case["stages"][i], rec)

    try:
        try:
            records, ledger, d = await H.run_history(case, ctx, after_stage=after_stage)
        finally:
            d = d or os.getcwd()
        for i, r in enumerate(records):
            check_serve_health(PROPERTY, r, i)
        if state["nontrivial"]:
            rec.mark_nontrivial([[s["spec"], s["build"].get("targets")] for s in case["stages"]],
                                sample={"edits": [s["edit"] for s in case["stages"]],
                                        "rcs": [H.returncode_class(r.result.returncode)
                                                for r in records]})
    finally:
        if d:
            H.cleanup_dir(ctx, d)


@st.composite
def _failing_histories(draw):
    hist = draw(specgen.histories(max_steps=6, min_builds=1, max_builds=3))
    for stage in hist["stages"]:
        names = specgen.active_steps(stage["spec"])
        if names and draw(st.integers(0, 2)) == 0:
            n = draw(st.sampled_from(names))
            stage["spec"]["steps"][n]["fail"] = draw(st.sampled_from(["early", "late"]))
        if draw(st.integers(0, 3)) == 0:
            stage["build"]["defer_cap"] = draw(st.integers(1, 3))
    return hist


@st.composite
def _target_cases_with_pending(draw):
    """C11's targeted builds; in one stage a producer of a requested target needs a resource that
    is not defined (so it stays pending in a non-draining build), possibly next to an invalid
    (static) target."""
    case = draw(target_cases())
    stage = case["stages"][-1]
    spec = stage["spec"]
    outs = specgen.declared_outputs(spec)
    files = sorted(p for p, (_n, role) in outs.items() if role == "out")
    if files:
        tgt = draw(st.sampled_from(files))
        name = outs[tgt][0]
        if name in spec["steps"]:
            spec["steps"][name]["resources"] = {"tpu": 1}
            targets = set(stage["build"].get("targets") or [])
            targets.add(tgt)
            used = sorted({q for sd in spec["steps"].values() for q in sd["inp"]
                           if q in spec["sources"]})
            if used and draw(st.booleans()):
                targets.add(draw(st.sampled_from(used)))
            stage["build"]["targets"] = sorted(targets)
            stage["build"]["target_mode"] = "pending+invalid"
    return case


@st.composite
def _many_roots_cases(draw):
    """More root causes of one kind than the summary displays (it ranks a pool of 20): n steps,
    each blocked by an input that nothing provides or by a resource that is not defined, some of
    them sharing a root."""
    n = draw(st.integers(18, 32))
    kind = draw(st.sampled_from(["inputs", "inputs", "resources", "mixed"]))
    steps = {}
    items = []
    nroots = draw(st.integers(max(2, n - 6), n))
    for k in range(n):
        root = k % nroots
        by_input = kind == "inputs" or (kind == "mixed" and k % 2 == 0)
        steps[f"m{k}"] = {
            "script": f"m{k}.py", "args": [], "workdir": ".",
            "inp": [f"miss/in{root}.txt"] if by_input else [],
            "out": [f"out/m{k}.out"], "vol": [], "env": [], "need": "default",
            "resources": {} if by_input else {f"res{root}": 1}, "amend_inp": [],
            "amend_out": [], "read_first": False, "fail": None, "partial": False, "variant": 0}
        items.append(["step", f"m{k}"])
    spec = {"sources": {"src/s0.txt": "s0\n"}, "steps": steps, "env": {},
            "plans": {"plan.py": {"workdir": ".", "items": items}}, "static_style": {}}
    build = {"njob": draw(st.integers(1, 3)), "keep_going": draw(st.booleans()),
             "do_clean": True, "resources": draw(st.sampled_from([None, "gpu:1"])),
             "choices": []}
    return {"stages": [{"edit": ["many-roots", kind, n, nroots], "spec": spec, "build": build}]}


def subchecks(tier):
    big = tier == "thorough"
    return [
        SubCheck("histories", check_case, strategy=_failing_histories,
                 examples=160_000 if big else 3_000),
        SubCheck("targets", check_case, strategy=target_cases,
                 examples=80_000 if big else 1_500),
        SubCheck("targets_pending", check_case, strategy=_target_cases_with_pending,
                 examples=40_000 if big else 1_000),
        SubCheck("many_roots", check_case, strategy=_many_roots_cases,
                 examples=10_000 if big else 300),
    ]


MANIFEST = {
    "engine": "E1-SimStepUp",
    "technique": "model-based property testing: every build of generated histories is a case; "
                 "return code bits and PendingSummary arithmetic against an independent recount "
                 "from the raw tables",
    "level_text": "Exploration; bit-by-bit oracle in both directions (bit set <=> condition), "
                  "partition arithmetic of the pending summary.",
    "level_note": "serve() return code (TUI-added bits out of reach); needed-by-definition from "
                  "harness.history.needed_steps",
}
