"""C20  A path means the same file to a step and to the director.

A real directory layout is created once per worker:
    <base>/r            project root (STEPUP_ROOT)
    <base>/r/sub, r/sub/deep, r/sib, r/sib/x
    <base>/out          a directory outside the root
and files `f` in every directory. No symbolic links, so `realpath` is `abspath`.
The step's process state (cwd, STEPUP_ROOT, HERE) is set for real in the worker process.
"""

import os

from hypothesis import strategies as st

from harness.common import SubCheck, Violation

PROPERTY = "C20"
LEVEL = "exploration"
RULE = (
    "Hypothesis draws the caller's directory (root, nested, sibling, outside the root), whether "
    "HERE is set, a working directory argument (relative incl. '..', './', trailing '/', or "
    "absolute) and a path built from components {a, b, f, sub, deep, sib, x, '.', '..', ''} with "
    "optional leading './', trailing '/', or absolute prefix. Oracles: realpath(root/translate(p, "
    "wd)) == realpath(cwd/wd/p); translate_back inverts it; a normalized root-relative path is a "
    "fixed point at the root; _keep_affixes keeps './' and '/' and still designates the same "
    "file; the arguments that api.step/amend/static/glob send to a recording RPC client "
    "designate the same files; ROOT/HERE as the executor computes them lead from the workdir to "
    "the root and back. Non-trivial = the path or workdir contains '..', '.', '//' or an affix, "
    "or the caller is not at the root; distinct by the whole case."
)
ASSUMPTIONS = [
    "No symbolic links in the layout (realpath == normpath of the absolute path).",
    "Paths that climb above the file-system root are not generated.",
]

_CALLERS = [".", "sub", "sub/deep", "sib", "sib/x", "../out"]
_COMPS = ["a", "b", "f", "sub", "deep", "sib", "x", ".", "..", "", "out"]


@st.composite
def _path(draw, allow_abs=True):
    comps = draw(st.lists(st.sampled_from(_COMPS), min_size=1, max_size=5))
    while comps and comps[0] == "":
        comps = comps[1:]
    if not comps:
        comps = ["f"]
    text = "/".join(comps)
    lead = draw(st.sampled_from(["", "", "./", "abs-root", "abs-out"]))
    if lead == "./":
        text = "./" + text
    elif lead.startswith("abs") and allow_abs:
        text = "{" + lead + "}/" + text
    if draw(st.booleans()) and not text.endswith("/"):
        if draw(st.integers(0, 3)) == 0:
            text += "/"
    return text


_CASE = st.fixed_dictionaries(
    {
        "caller": st.sampled_from(_CALLERS),
        "set_here": st.booleans(),
        "workdir": st.one_of(st.just("."), _path()),
        "path": _path(),
    }
)


def _layout(ctx):
    base = ctx.cache.get("c20_base")
    if base is None:
        base = os.path.realpath(ctx.scratch.fresh("layout"))
        for d in ["r", "r/sub", "r/sub/deep", "r/sib", "r/sib/x", "out", "r/a", "r/b", "out/a"]:
            os.makedirs(os.path.join(base, d), exist_ok=True)
            with open(os.path.join(base, d, "f"), "w") as fh:
                fh.write(d)
        ctx.cache["c20_base"] = base
    return base


def _subst(text, base):
    return text.replace("{abs-root}", os.path.join(base, "r")).replace(
        "{abs-out}", os.path.join(base, "out"))


def _escapes_fs_root(start, rel):
    """True when resolving `rel` from `start` would climb above '/'."""
    depth = len([c for c in start.split("/") if c])
    for c in rel.split("/"):
        if c == "..":
            depth -= 1
            if depth < 0:
                return True
        elif c not in ("", "."):
            depth += 1
    return False


def _enter(case, ctx):
    base = _layout(ctx)
    root = os.path.join(base, "r")
    cwd = os.path.normpath(os.path.join(root, case["caller"]))
    os.chdir(cwd)
    os.environ["STEPUP_ROOT"] = root
    if case["set_here"]:
        os.environ["HERE"] = os.path.relpath(cwd, root)
    else:
        os.environ.pop("HERE", None)
    return base, root, cwd


def _target(cwd, wd, p):
    return os.path.realpath(os.path.join(cwd, wd, p))


def check_translate(case, rec, ctx):
    from path import Path

    from stepup.core.api import _keep_affixes
    from stepup.core.path import get_affixes, translate, translate_back

    base, root, cwd = _enter(case, ctx)
    wd = _subst(case["workdir"], base)
    p = _subst(case["path"], base)
    if not os.path.isabs(wd) and _escapes_fs_root(cwd, wd):
        return
    start = os.path.normpath(os.path.join(cwd, wd))
    if not os.path.isabs(p) and _escapes_fs_root(start, p):
        return
    interesting = (case["caller"] != "." or any(c in ("..", ".", "") for c in p.split("/")[:-1])
                   or p.startswith("./") or p.endswith("/") or wd != ".")
    if interesting:
        rec.mark_nontrivial(case, sample=case)
    rec.event("caller:" + case["caller"])
    rec.event("abs-path" if os.path.isabs(p) else "rel-path")

    # 1. translate designates the same file.
    tp = translate(p, wd)
    expected = _target(cwd, wd, p)
    got = os.path.realpath(os.path.join(root, tp))
    if got != expected:
        raise Violation(
            "C20/translate-designates-other-file",
            f"caller {cwd} (HERE {'set' if case['set_here'] else 'unset'}), workdir {wd!r}, path "
            f"{p!r}: translate -> {str(tp)!r} = {got}, but the step means {expected}",
        )
    if str(tp) != os.path.normpath(str(tp)):
        raise Violation("C20/translate-not-normalized", f"{p!r}, {wd!r} -> {str(tp)!r}")
    if os.path.isabs(p) and str(tp) != os.path.normpath(p):
        raise Violation("C20/translate-changes-absolute-path", f"{p!r} -> {str(tp)!r}")
    # 2. translate_back inverts translate (as a designation of files).
    tb = translate_back(tp, wd)
    back = _target(cwd, wd, str(tb))
    if back != expected:
        raise Violation(
            "C20/translate-back-designates-other-file",
            f"caller {cwd}, workdir {wd!r}, path {p!r}: translate -> {str(tp)!r}, translate_back "
            f"-> {str(tb)!r} = {back}, expected {expected}",
        )
    # 3. a normalized root-relative path is a fixed point (caller at the root, default workdir).
    if not os.path.isabs(str(tp)) and not str(tp).startswith(".."):
        os.chdir(root)
        if case["set_here"]:
            os.environ["HERE"] = "."
        again = translate(str(tp))
        if str(again) != str(tp):
            raise Violation("C20/normalized-path-not-a-fixed-point",
                            f"{str(tp)!r} -> {str(again)!r}")
        os.chdir(cwd)
        if case["set_here"]:
            os.environ["HERE"] = os.path.relpath(cwd, root)
    # 4. _keep_affixes(p, translate): affixes preserved, same file (default workdir only).
    if not os.path.isabs(p) and not _escapes_fs_root(cwd, p):
        lead, trail = get_affixes(p)
        ka = _keep_affixes(Path(p), translate)
        lead2, trail2 = get_affixes(ka)
        if trail2 != trail:
            raise Violation("C20/keep-affixes-loses-trailing-slash", f"{p!r} -> {str(ka)!r}")
        if lead == "./" and not str(ka).startswith("./"):
            raise Violation("C20/keep-affixes-loses-leading-dot-slash", f"{p!r} -> {str(ka)!r}")
        if lead == "" and str(ka).startswith("./") and str(ka) != "./":
            raise Violation("C20/keep-affixes-invents-leading-dot-slash",
                            f"{p!r} -> {str(ka)!r}")
        if os.path.realpath(os.path.join(root, str(ka))) != _target(cwd, ".", p):
            raise Violation("C20/keep-affixes-designates-other-file",
                            f"caller {cwd}: {p!r} -> {str(ka)!r}")
        rec.event("affix:" + (lead or "-") + (trail or "-"))


# ---------------------------------------------------------------------------------------------
# API functions with a recording RPC client


class _Recorder:
    def __init__(self):
        self.calls = []

    @property
    def call(self):
        return self

    def __getattr__(self, name):
        def record(*args, **kwargs):
            self.calls.append((name, args))
            return True

        return record


_API_CASE = st.fixed_dictionaries(
    {
        "caller": st.sampled_from(_CALLERS[:5]),
        "set_here": st.booleans(),
        "func": st.sampled_from(["step", "step", "amend", "static", "glob"]),
        "workdir": st.one_of(st.just("."), _path(allow_abs=False)),
        "inp": st.lists(_path(), max_size=2),
        "out": st.lists(_path(), max_size=2),
        "vol": st.lists(_path(), max_size=2),
    }
)


def check_api(case, rec, ctx):
    import stepup.core.api as api
    from stepup.core.exceptions import PathError

    base, root, cwd = _enter(case, ctx)
    func = case["func"]
    wd = _subst(case["workdir"], base) if func == "step" else "."
    if _escapes_fs_root(cwd, wd):
        return
    start = os.path.normpath(os.path.join(cwd, wd))
    inp = [_subst(p, base) for p in case["inp"]]
    out = [_subst(p, base) for p in case["out"]]
    vol = [_subst(p, base) for p in case.get("vol", []) if p not in case["out"]]
    if any(not os.path.isabs(p) and _escapes_fs_root(start, p) for p in inp + out + vol):
        return
    recorder = _Recorder()
    saved = (api.get_rpc_client, api.get_job_i)
    api.get_rpc_client = lambda path=None: recorder
    api.get_job_i = lambda: 7
    for hist in api._AMEND_HISTORY.values():
        hist.clear()
    try:
        try:
            if func == "step":
                api.step("cmd", inp=inp, out=out, vol=vol, workdir=wd)
            elif func == "amend":
                api.amend(inp=inp, out=out, vol=vol)
            elif func == "static":
                api.static(*inp)
            else:
                for p in inp[:1]:
                    api.glob(p)
        except PathError:
            # Directories given as files, literal static paths that do not exist, ...:
            # a documented rejection.
            rec.event(f"{func}:rejected")
            return
    finally:
        api.get_rpc_client, api.get_job_i = saved
    rec.event(f"{func}:accepted")

    def same(sent, given, where, wd_used):
        exp = _target(cwd, wd_used, given)
        got = os.path.realpath(os.path.join(root, str(sent)))
        if got != exp:
            raise Violation(
                f"C20/api-{func}-{where}-designates-other-file",
                f"caller {cwd} (HERE {'set' if case['set_here'] else 'unset'}), workdir "
                f"{wd_used!r}: {where} {given!r} was sent as {str(sent)!r} = {got}, the step "
                f"means {exp}",
            )

    for name, args in recorder.calls:
        if name == "define_step":
            _job, _cmd, tr_inp, _env, tr_out, _vol, tr_wd = args[:7]
            for given, sent in zip(inp, tr_inp):
                same(sent, given, "inp", wd)
            for given, sent in zip(out, tr_out):
                same(sent, given, "out", wd)
            for given, sent in zip(vol, _vol):
                same(sent, given, "vol", wd)
            if os.path.realpath(os.path.join(root, str(tr_wd))) != _target(cwd, ".", wd):
                raise Violation("C20/api-step-workdir-designates-other-directory",
                                f"caller {cwd}: workdir {wd!r} sent as {str(tr_wd)!r}")
            rec.mark_nontrivial(case, sample=case)
        elif name == "amend_step":
            _job, tr_inp, _env, tr_out = args[:4]
            tr_vol = args[4] if len(args) > 4 else []
            exp_vol = {_target(cwd, ".", p) for p in vol}
            got_vol = {os.path.realpath(os.path.join(root, str(s))) for s in tr_vol}
            if exp_vol != got_vol:
                raise Violation("C20/api-amend-designates-other-file",
                                f"caller {cwd}: vol {vol} -> {sorted(map(str, tr_vol))}")
            exp_inp = {_target(cwd, ".", p) for p in inp}
            got_inp = {os.path.realpath(os.path.join(root, str(s))) for s in tr_inp}
            exp_out = {_target(cwd, ".", p) for p in out}
            got_out = {os.path.realpath(os.path.join(root, str(s))) for s in tr_out}
            if exp_inp != got_inp or exp_out != got_out:
                raise Violation("C20/api-amend-designates-other-file",
                                f"caller {cwd}: inp {inp} -> {sorted(map(str, tr_inp))}, out "
                                f"{out} -> {sorted(map(str, tr_out))}")
            rec.mark_nontrivial(case, sample=case)
        elif name == "declare_static":
            _job, tr_trees, tr_files, _patterns = args[:4]
            exp = {_target(cwd, ".", p) for p in inp}
            got = {os.path.realpath(os.path.join(root, str(s))) for s in [*tr_trees, *tr_files]}
            if exp != got:
                raise Violation("C20/api-static-designates-other-file",
                                f"caller {cwd}: {inp} -> trees {list(map(str, tr_trees))} files "
                                f"{list(map(str, tr_files))}")
            for t in tr_trees:
                if str(t).endswith("/") is False and os.path.isdir(os.path.join(root, str(t))):
                    pass  # trees are stored with a trailing slash by the director
            rec.mark_nontrivial(case, sample=case)
        elif name == "register_glob":
            _job, tr_pattern, _subs, tr_paths = args[:4]
            given = inp[0]
            if given.endswith("/") != str(tr_pattern).endswith("/"):
                raise Violation("C20/api-glob-pattern-loses-trailing-slash",
                                f"{given!r} -> {str(tr_pattern)!r}")
            for s in tr_paths:
                full = os.path.join(root, str(s))
                if not os.path.lexists(full):
                    raise Violation("C20/api-glob-match-does-not-exist-from-root",
                                    f"caller {cwd}: pattern {given!r} match sent as {str(s)!r}")
                if os.path.isdir(full) != str(s).endswith("/"):
                    raise Violation("C20/api-glob-directory-affix", f"{str(s)!r}")
            rec.mark_nontrivial(case, sample=case)


# ---------------------------------------------------------------------------------------------
# ROOT and HERE as the executor computes them for a step with a given (stored) workdir


def check_root_here(case, rec, ctx):
    from path import Path

    base = _layout(ctx)
    root = os.path.join(base, "r")
    os.chdir(root)  # the director runs at the root
    wd = case["workdir"]
    if wd.startswith("{") or _escapes_fs_root(root, wd):
        return
    workdir = os.path.normpath(wd)
    # The two expressions of Executor._run_command, evaluated in the director's cwd.
    env_root = str(Path.cwd().relpath(workdir))
    env_here = str(Path(workdir).relpath())
    step_cwd = os.path.realpath(os.path.join(root, workdir))
    if os.path.realpath(os.path.join(step_cwd, env_root)) != root:
        raise Violation("C20/ROOT-does-not-lead-to-root", f"workdir {workdir!r}: ROOT={env_root!r}")
    if os.path.realpath(os.path.join(root, env_here)) != step_cwd:
        raise Violation("C20/HERE-does-not-lead-to-workdir",
                        f"workdir {workdir!r}: HERE={env_here!r}")
    rec.mark_nontrivial(workdir, sample={"workdir": workdir, "ROOT": env_root, "HERE": env_here})


def subchecks(tier):
    big = tier == "thorough"
    return [
        SubCheck("translate", check_translate, strategy=_CASE,
                 examples=1_600_000 if big else 96_000),
        SubCheck("api_calls", check_api, strategy=_API_CASE,
                 examples=400_000 if big else 32_000),
        SubCheck("root_here", check_root_here, strategy=_CASE,
                 examples=40_000 if big else 4_000),
    ]


MANIFEST = {
    "engine": "E4-pure",
    "technique": "property-based testing: generated caller/workdir/path triples on a real "
                 "directory layout, realpath oracle, inverse and fixed-point laws, recording RPC "
                 "client behind the public API functions",
    "level_text": "Exploration with an exact oracle (os.path.realpath in a symlink-free layout) "
                  "over callers inside, beside and outside the root, relative and absolute "
                  "workdirs, and paths with '.', '..', '//' and affixes.",
    "level_note": "no symlinks; the recording client stands in for the director; ROOT/HERE are "
                  "re-evaluated with the executor's two expressions and observed for real in the "
                  "E1 engine (simulated steps receive them)",
}
