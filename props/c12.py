"""C12  Job, resource and hold limits are never exceeded.

Engine E1. The simulated-step log records, for every command start and end, the set of running
commands (logical clock owned by the harness), every hold/release request and the hold depth of
the declaring step at every definition. The limits are judged on that log.
"""

import os

from hypothesis import strategies as st

from harness import history as H
from harness import specgen
from harness.common import SubCheck, Violation
from props.c01 import check_serve_health

PROPERTY = "C12"
LEVEL = "exploration"
RULE = (
    "Specs as C01 with resources on half of the steps (1-2 units of gpu/lic), resource "
    "declarations from {none, gpu:1, gpu:2,lic:1, gpu:0,lic:2, ...}, njob 1-4, hold blocks in "
    "plans (nested, never released, followed by a failing plan) and drawn schedules; one or two "
    "builds. At every command start: running commands <= njob; units of each resource held by "
    "running commands <= available; a step requiring an undefined resource never starts; a step "
    "defined while its declarer had hold depth > 0 does not start before the declarer's depth "
    "returned to 0 or the declarer ended. Non-trivial = a limit was reached (running == njob "
    "with >= 2 jobs, a resource fully used) or a hold constraint was exercised; distinct by "
    "spec+config."
)
ASSUMPTIONS = [
    "Concurrency is counted over simulated commands between their start and end log entries; "
    "real process start latency is not modelled.",
]

RES_CONFIGS = [None, "gpu:1", "gpu:2,lic:1", "gpu:0,lic:2", "gpu:1,lic:1", "lic:2", "gpu:2,lic:2"]


@st.composite
def _cases(draw):
    spec = draw(specgen.specs(max_steps=6))
    for sd in spec["steps"].values():
        sd["fail"] = None
        if draw(st.booleans()):
            sd["resources"] = {draw(st.sampled_from(specgen.RESOURCES)): draw(st.integers(1, 2))}
            if draw(st.integers(0, 3)) == 0:
                sd["resources"]["lic" if "gpu" in sd["resources"] else "gpu"] = 1
    # hold blocks: nested, unreleased, or followed by a failure of the plan
    for plan in spec["plans"].values():
        plan["items"] = [it for it in plan["items"] if it[0] not in ("hold", "release")]
        idx = [i for i, it in enumerate(plan["items"]) if it[0] in ("step", "plan")]
        mode = draw(st.sampled_from(["none", "block", "block", "nested", "unreleased",
                                     "fail_inside", "fail_running"]))
        if not idx or mode == "none":
            continue
        a = draw(st.sampled_from(idx))
        items = plan["items"]
        if mode == "fail_running":
            # the plan idles (its steps start running) and then fails: the steps it created are
            # detached while they run and still hold their resources
            for _ in range(draw(st.integers(1, 3))):
                items.append(["pause"])
            items.append(["fail_plan"])
            spec["fail_running"] = True
            continue
        if mode == "block":
            b = draw(st.integers(a + 1, len(items)))
            items.insert(b, ["release"])
            items.insert(a, ["hold"])
        elif mode == "nested":
            b = draw(st.integers(a + 1, len(items)))
            items.insert(b, ["release"])
            items.insert(b, ["release"])
            items.insert(a, ["hold"])
            items.insert(a, ["hold"])
        elif mode == "unreleased":
            items.insert(a, ["hold"])
        else:
            items.insert(a, ["hold"])
            items.append(["fail_plan"])
    resources = draw(st.sampled_from(RES_CONFIGS))
    stages = []
    for i in range(draw(st.integers(1, 2))):
        build = specgen.build_config(draw, final=True, resources=resources)
        build["njob"] = draw(st.integers(1, 4))
        if spec.get("fail_running"):
            build["keep_going"] = True
            build["njob"] = draw(st.integers(3, 4))
        build["choices"] = draw(st.lists(st.integers(0, 255), max_size=60))
        stage_spec = spec
        if i == 1:
            _desc, stage_spec = draw(specgen.edits(spec, {}, ["change_source", "change_script",
                                                              "change_source"]))
        stages.append({"edit": ["stage"], "spec": stage_spec, "build": build})
    return {"stages": stages}


def _mk_step(script, workdir, inp, out, res):
    return {"script": script, "args": [], "workdir": workdir, "inp": list(inp), "out": list(out),
            "vol": [], "env": [], "need": "default", "resources": dict(res), "amend_inp": [],
            "amend_out": [], "read_first": False, "fail": None, "partial": False, "variant": 0}


@st.composite
def _detached_holder_cases(draw):
    """A sub-plan fails (or is deferred and rerun) while a step it created is running and holds a
    named resource; steps of the root plan wait for the same resource. The detached step keeps
    running, so its units stay taken."""
    units = draw(st.integers(1, 2))
    nwait = draw(st.integers(1, 3))
    sources = {"src/s0.txt": "s0\n", "src/s1.txt": "s1\n"}
    steps = {"holder": _mk_step("sub/holder.py", "sub", ["src/s0.txt", "src/s1.txt"] * 2,
                                ["out/holder.out"], {"gpu": units})}
    sub_items = [["step", "holder"]] + [["pause"]] * draw(st.integers(1, 4))
    how = draw(st.sampled_from(["fail", "fail", "defer"]))
    if how == "fail":
        sub_items.append(["fail_plan"])
    else:
        steps["late"] = _mk_step("late.py", ".", ["src/s0.txt"], ["gen/late.out"], {})
        sub_items.append(["chaos", ["amend", {"inp": ["gen/late.out"]}]])
    root_items = [["plan", "sub/plan.py"]]
    for k in range(nwait):
        steps[f"wait{k}"] = _mk_step(f"wait{k}.py", ".", ["src/s1.txt"], [f"out/wait{k}.out"],
                                     {"gpu": draw(st.integers(1, units))})
        root_items.append(["step", f"wait{k}"])
    if how == "defer":
        root_items.append(["step", "late"])
    pos = draw(st.integers(0, len(root_items) - 1))
    root_items.insert(pos, root_items.pop(0))
    spec = {"sources": sources, "steps": steps, "env": {},
            "plans": {"plan.py": {"workdir": ".", "items": root_items},
                      "sub/plan.py": {"workdir": "sub", "items": sub_items}},
            "static_style": {}}
    build = {"njob": draw(st.integers(3, 4)), "keep_going": True, "do_clean": True,
             "resources": f"gpu:{units}",
             "choices": draw(st.lists(st.integers(0, 255), max_size=40))}
    return {"stages": [{"edit": ["detached-holder", how], "spec": spec, "build": build}]}


def judge(i, r, rec, state):
    log = r.result.steplog
    njob = r.config.get("njob", 1)
    avail = {}
    if r.config.get("resources"):
        for item in r.config["resources"].split(","):
            name, _, units = item.partition(":")
            avail[name] = int(units or 1)
    required = {}  # label -> resources
    holds = {}  # declarer label -> list of (time, depth) changes
    constraints = []  # (defined label, declarer, time of definition)
    ended = {}
    for e in log:
        if e["op"] == "define":
            spec = e["spec"]
            wd = e.get("workdir", ".")
            label = spec["cmd"] if wd == "." else f"{spec['cmd']}  # wd={wd}"
            required[label] = dict(spec.get("resources", {}))
            if e.get("hold", 0) > 0:
                constraints.append((label, e["label"], e["t"]))
        elif e["op"] in ("hold", "release"):
            holds.setdefault(e["label"], []).append((e["t"], e["depth"]))
        elif e["op"] == "end":
            ended.setdefault(e["label"], []).append(e["t"])
    where = f"stage {i} (njob={njob}, resources={r.config.get('resources')})"
    for e in log:
        if e["op"] != "start":
            continue
        running = e["running"]
        if len(running) > njob:
            raise Violation(f"{PROPERTY}/more-commands-than-jobs",
                            f"{where}: {len(running)} commands running at t={e['t']}: {running}")
        if len(running) == njob and njob >= 2:
            state["nontrivial"] = True
        need = required.get(e["label"], {})
        for name in need:
            if name not in avail:
                raise Violation(f"{PROPERTY}/step-with-undefined-resource-started",
                                f"{where}: {e['label']!r} requires {need}, available {avail}")
        usage = {}
        for lbl in running:
            for name, units in required.get(lbl, {}).items():
                usage[name] = usage.get(name, 0) + units
        for name, units in usage.items():
            if units > avail.get(name, 0):
                raise Violation(
                    f"{PROPERTY}/resource-over-committed",
                    f"{where}: at t={e['t']} running {running} hold {units} unit(s) of {name}, "
                    f"available {avail.get(name, 0)}",
                )
            if units == avail.get(name, 0):
                state["nontrivial"] = True
        for label, declarer, tdef in constraints:
            if label != e["label"] or e["t"] < tdef:
                continue
            released = [t for t, depth in holds.get(declarer, []) if depth == 0 and t > tdef]
            released += [t for t in ended.get(declarer, []) if t > tdef]
            state["nontrivial"] = True
            if not released or min(released) > e["t"]:
                raise Violation(
                    f"{PROPERTY}/held-step-started-before-release",
                    f"{where}: {label!r} was defined at t={tdef} while {declarer!r} was holding "
                    f"and started at t={e['t']}, before the outermost release/end of the declarer "
                    f"(release times {sorted(released)[:3]})",
                )
    rec.event("rc:" + H.returncode_class(r.result.returncode))
    rec.event(f"max_parallel={min(r.result.max_parked, 4)}")


async def check_case(case, rec, ctx):
    d = None
    state = {"nontrivial": False}

    def after_stage(i, r, ledger):
        check_serve_health(PROPERTY, r, i)
        judge(i, r, rec, state)

    try:
        try:
            records, ledger, d = await H.run_history(case, ctx, after_stage=after_stage)
        finally:
            d = d or os.getcwd()
        for i, r in enumerate(records):
            check_serve_health(PROPERTY, r, i)
        if state["nontrivial"]:
            rec.mark_nontrivial([[s["spec"], s["build"]] for s in case["stages"]],
                                sample={"njob": [s["build"]["njob"] for s in case["stages"]],
                                        "resources": case["stages"][0]["build"]["resources"],
                                        "plans": {p: v["items"] for p, v in
                                                  case["stages"][0]["spec"]["plans"].items()}})
    finally:
        if d:
            H.cleanup_dir(ctx, d)


def subchecks(tier):
    big = tier == "thorough"
    return [SubCheck("limits", check_case, strategy=_cases, examples=160_000 if big else 4_000),
            SubCheck("detached_holder", check_case, strategy=_detached_holder_cases,
                     examples=40_000 if big else 1_200)]


MANIFEST = {
    "engine": "E1-SimStepUp",
    "technique": "property-based testing over generated schedules: harness-owned pump decides "
                 "the interleaving of simulated commands; invariants over the command log "
                 "(instantaneous job count, resource units, hold windows)",
    "level_text": "Exploration of schedules, job limits, resource declarations and hold shapes; "
                  "every command start of every build is an assertion point.",
    "level_note": "logical clock of the harness; hold constraints derived from the harness's "
                  "own record of hold/release/define requests",
}
