"""C15  Requests that change the workflow are applied atomically.

(a) Engine E1 with request-level instrumentation: every request a simulated step sends (valid or
from the chaos universe, hence often rejected at a late internal stage) runs in the step's own
asyncio task; the transactions committed by that task during the request are attributed to it
and the table dump before each is compared with the dump after.
(b) Engine E3: the peer of an `RPCServerConnection` vanishes (EOF, broken writer) while the
handlers of its fully received requests are still running; each handler has a begin and an end
side effect with an await in between, like a DirectorHandler method between two statements of
one transaction.
"""

import os

from hypothesis import strategies as st

from harness import history as H
from harness import specgen
from harness.common import SubCheck, Violation
from harness.instrument import Instrument
from props import c16
from props.c01 import check_serve_health

PROPERTY = "C15"
LEVEL = "exploration"
RULE = (
    "(requests) chaos histories as in C09 (1-3 builds, 1-6 chaos requests per build: static "
    "files/trees/patterns with a colliding n-th path, steps whose last output collides or whose "
    "inputs close a cycle, globs matching outputs, amend with colliding outputs, release without "
    "hold), njob 1-4 so that requests of several steps interleave. An evaluation is one request. "
    "Oracle: a rejected request (any exception) is followed by the same table contents as before "
    "it in every transaction its task committed; an accepted request changes the tables in at "
    "most one transaction; Non-trivial = a rejected request; distinct by (request, tables before)"
    ". (disconnect) 1-3 connections with 1-6 slow calls each, the byte stream cut at drawn "
    "offsets, EOF and a broken writer right after the last complete request, handlers released "
    "afterwards in a drawn order: every handler whose request arrived in full runs to its end, "
    "serve() returns, no reply is sent twice."
)
ASSUMPTIONS = [
    "Atomicity is judged on the stored workflow (all tables of graph.db), not on in-memory "
    "bookkeeping of the director (hash queue, directory watches).",
    "All database writes go through the one DBSession of the director, so the dump taken at the "
    "previous commit is the state at the beginning of the next transaction.",
]


async def check_requests(case, rec, ctx):
    d = None
    instruments = []

    def session_setup(session):
        ins = Instrument(wellformed=False, dispatch=False, per_task=True, fail_fast=False)
        ins.install(session)
        instruments.append(ins)

    def after_stage(i, r, ledger):
        ins = instruments[-1]
        n = sum(ins.requests[k] for k in ("accepted", "rejected", "internal-error"))
        rec.evaluations += n
        for k, v in ins.requests.items():
            rec.count("requests_" + k, v)
        if r.result.observer_failures:
            raise Violation(f"{PROPERTY}/observer-failed", str(r.result.observer_failures[0])[:3000])
        if ins.findings:
            sig, msg = ins.findings[0]
            raise Violation(f"{PROPERTY}/{sig}",
                            f"stage {i}: {msg}; chaos {case['stages'][i].get('chaos')}")
        for lbl, op, cls, msg in r.result.rejections:
            rec.event(f"rejected:{op}:{cls}")
            rec.mark_nontrivial([op, cls, msg, i, case["stages"][i]["spec"]],
                                sample={"request": op, "error": cls, "message": msg[:160]})
        check_serve_health(PROPERTY, r, i)

    try:
        try:
            rec.evaluations -= 1
            records, ledger, d = await H.run_history(case, ctx, after_stage=after_stage,
                                                     session_setup=session_setup)
        finally:
            d = d or os.getcwd()
        if instruments and instruments[-1].findings:
            sig, msg = instruments[-1].findings[0]
            raise Violation(f"{PROPERTY}/{sig}", msg)
        for i, r in enumerate(records):
            check_serve_health(PROPERTY, r, i)
    finally:
        if d:
            H.cleanup_dir(ctx, d)


@st.composite
def _request_cases(draw):
    hist = draw(specgen.chaos_histories(max_steps=5, min_builds=1, max_builds=3, nmax=6))
    for stage in hist["stages"]:
        stage["build"]["njob"] = draw(st.integers(1, 4))
    return hist


@st.composite
def _disconnect_cases(draw):
    nconn = draw(st.integers(1, 3))
    conns = []
    for c in range(nconn):
        n = draw(st.integers(1, 6))
        ids = draw(st.lists(st.integers(0, 50), min_size=n, max_size=n, unique=True))
        calls = [{"id": i, "kind": draw(st.sampled_from(["slow", "slow", "slow", "echo", "usage"])),
                  "key": f"c{c}k{k}", "value": k} for k, i in enumerate(ids)]
        conns.append({"calls": calls,
                      "cuts": draw(st.lists(st.integers(0, 10**6), max_size=12)),
                      "turns": draw(st.lists(st.integers(0, 3), min_size=1, max_size=4)),
                      "ending": draw(st.sampled_from(["eof", "eof", "eof_mid_header",
                                                      "eof_mid_body", "eof_mid_body",
                                                      "peer_stops_reading", "sentinel"])),
                      "fault_at": draw(st.integers(0, 10**6))})
    nslow = sum(1 for cn in conns for cl in cn["calls"] if cl["kind"] == "slow")
    return {"conns": conns, "release": draw(st.permutations(list(range(nslow)))),
            "release_early": draw(st.integers(0, max(0, nslow - 1))) if nslow else 0,
            "order": draw(st.lists(st.integers(0, nconn - 1), max_size=12)),
            "early_eof": True, "writer_breaks": draw(st.booleans()),
            "turns_after_eof": draw(st.integers(0, 5))}


async def check_disconnect(case, rec, ctx):
    try:
        await c16.run_stream_case(case, rec)
    except Violation as v:
        raise Violation(v.signature.replace("C16/", f"{PROPERTY}/disconnect/"), v.message) from v


def subchecks(tier):
    big = tier == "thorough"
    return [
        SubCheck("requests", check_requests, strategy=_request_cases,
                 examples=120_000 if big else 3_000),
        SubCheck("disconnect", check_disconnect, strategy=_disconnect_cases,
                 examples=400_000 if big else 30_000),
    ]


MANIFEST = {
    "engine": "E1-SimStepUp + request instrumentation; E3-RPC for disconnects",
    "technique": "property-based testing with fault injection: generated invalid requests that "
                 "fail at late internal stages (differential oracle: tables before = tables "
                 "after), generated disconnect points against handlers with observable begin/end "
                 "effects",
    "level_text": "Exploration; every request of every generated build and every generated "
                  "disconnect point is an assertion point.",
    "level_note": "stored workflow only; in-memory director state out of scope; disconnects at "
                  "the RPC layer with a two-phase test handler",
}
