"""C01  An incremental build is equivalent to a build from scratch.

Engine E1. A generated history of specs (edits) and builds (restarts with drawn job counts,
resources, keep-going, cleaning and schedules) is run in one directory; then the final sources
are built from scratch in another directory. Oracles:
1. differential: return-code class, output contents and the canonical graph of attached nodes;
2. staleness (after every successful build of the history, not only the last): every output of a
   SUCCEEDED active step equals the pure function F of the current content of its inputs;
3. completeness: after a successful build every active non-optional step is SUCCEEDED and every
   attached step is one that the current plans define.
"""

import os

from harness import history as H
from harness import specgen
from harness.common import HarnessError, SubCheck, Violation

PROPERTY = "C01"
LEVEL = "exploration"
RULE = (
    "Hypothesis draws a project spec (1-6 work steps in a DAG over sources in nested directories, "
    "optional steps, volatile and amended outputs, amended inputs, env dependencies, resources, "
    "hold blocks, a sub-plan, static declarations as files/tree/pattern) and 1-3 further stages of "
    "1-2 edits each (change/add/delete source, drop/re-add/modify/move step, rename output, "
    "out<->vol, default<->optional, drop/re-add sub-plan, static style, env, script, make a step "
    "fail), each followed by a restart build with drawn njob, resources, keep-going, cleaning and "
    "schedule; the last build cleans. Non-trivial = an edit detached or re-attached a step or "
    "output AND the last build skipped at least one step or removed a file; distinct by the "
    "sequence of specs."
)
ASSUMPTIONS = [
    "Simulated steps are pure functions of what they read (same sources and code => same "
    "outputs), as the statement requires.",
    "Hash threads are real threads: their timing is the one part of the schedule the harness "
    "does not own; outcomes must not depend on it.",
]

PLAN_EDITS = {"drop_step", "readd_step", "modify_step_inputs", "rename_output", "toggle_optional",
              "toggle_vol", "move_step", "drop_subplan", "readd_subplan", "toggle_amend",
              "restyle_static"}


def check_serve_health(prop, rec, stage_i):
    r = rec.result
    if r.timed_out:
        raise HarnessError(f"stage {stage_i}: build did not terminate within the watchdog")
    if r.serve_error is not None:
        etype, msg, tb = r.serve_error
        raise Violation(f"{prop}/director-raised/{etype}",
                        f"stage {stage_i}: serve() raised {etype}: {msg}\n{tb[-1500:]}")
    if r.internal_errors:
        label, op, etype, msg, tb = r.internal_errors[0]
        raise Violation(f"{prop}/internal-error-in-request/{etype}",
                        f"stage {stage_i}: {op} from {label!r} raised {etype}: {msg}\n{tb[-1500:]}")
    for tag, desc, pages in r.events:
        if tag == "ERROR" and "exception" in desc.lower():
            raise Violation(f"{prop}/error-report", f"stage {stage_i}: {desc} {pages}")


def _optional_failed_for_recorded_dynamic_input(records, srec):
    """Every step that failed in the last incremental build is optional, was not executed by the
    scratch build, and one of its outputs was a recorded dynamic input of an attached step when
    the last build started (tables at the end of the previous build)."""
    final = records[-1]
    if len(records) < 2:
        return False
    prev = records[-2].result.tables
    nodes = {n["i"]: n for n in prev["node"]}
    dynamic = {d["i"] for d in prev["dynamic_dep"]}
    recorded = set()
    for d in prev["dependency"]:
        if d["i"] in dynamic and nodes[d["source"]]["kind"] == "file" \
                and not nodes[d["sink"]]["detached"]:
            recorded.add(nodes[d["source"]]["label"])
    tables = final.result.tables
    tn = {n["i"]: n for n in tables["node"]}
    failed = [x["node"] for x in tables["step"] if x["state"] == 24 and not tn[x["node"]]["detached"]]
    if not failed:
        return False
    for i in failed:
        step = next(x for x in tables["step"] if x["node"] == i)
        if step["need"] != 31 or tn[i]["label"] in srec.result.commands:
            return False
        outs = {tn[d["sink"]]["label"] for d in tables["dependency"] if d["source"] == i}
        if not outs & recorded:
            return False
    return True


def _optional_failed_for_blocked_consumer(tables):
    nodes = {n["i"]: n for n in tables["node"]}
    steps = {x["node"]: x for x in tables["step"]}
    files = {f["node"]: f for f in tables["file"]}
    dynamic = {d["i"] for d in tables["dynamic_dep"]}
    failed = [i for i, x in steps.items() if x["state"] == 24 and not nodes[i]["detached"]]
    if not failed:
        return False
    for i in failed:
        if steps[i]["need"] != 31:
            return False
        outs = {d["sink"] for d in tables["dependency"] if d["source"] == i}
        ok = False
        for d in tables["dependency"]:
            if d["source"] in outs and d["i"] in dynamic and d["sink"] in steps:
                c = d["sink"]
                if nodes[c]["detached"] or steps[c]["state"] != 21:
                    continue
                for e in tables["dependency"]:
                    if e["sink"] == c and e["i"] not in dynamic and e["source"] in files:
                        f, fn = files[e["source"]], nodes[e["source"]]
                        if fn["detached"] or f["state"] not in (14, 16):
                            ok = True
        if not ok:
            return False
    return True


def _failed_after_redeclaration(rec):
    """A command that was reported FAIL whose step is attached and not FAILED in the end, and
    that was defined (again) by its creator after it had been started in this build."""
    failed = [d for t, d, _ in rec.result.events if t == "FAIL"]
    states = H.step_states(rec.result.tables)
    log = rec.result.steplog
    for label in failed:
        if label not in states or states[label][1] or states[label][0] == 24:
            continue
        starts = [e["t"] for e in log if e["op"] == "start" and e["label"] == label]
        ends = [e["t"] for e in log if e["op"] == "end" and e["label"] == label]
        for e in log:
            if e["op"] != "define":
                continue
            wd = e.get("workdir", ".")
            defined = e["cmd"] if wd == "." else f"{e['cmd']}  # wd={wd}"
            if defined == label and starts and e["t"] > min(starts):
                return True
    return False


def staleness(spec, tables, prop, where):
    """Oracle 2 and 3 on the tables of a successful build in the current directory."""
    from stepup.core.enums import FileState, StepState

    sstates = H.step_states(tables)
    fstates = H.file_states(tables)
    defs = specgen.active_step_defs(spec)
    active = list(defs)
    labels = {}
    for name in active:
        label, _ = specgen.step_label(defs[name])
        labels[label] = name
    plan_labels = set()
    for p in specgen.active_plans(spec):
        plan_labels.add(specgen.plan_label(p, spec["plans"][p]["workdir"])[0])
    # 3a. nothing that the plans no longer define is still active
    for label, (state, detached) in sstates.items():
        if not detached and label not in labels and label not in plan_labels:
            raise Violation(f"{prop}/undefined-step-still-active",
                            f"{where}: step {label!r} is attached but no current plan defines it")
    for name in active:
        sd = defs[name]
        label, _ = specgen.step_label(sd)
        if label not in sstates or sstates[label][1]:
            raise Violation(f"{prop}/defined-step-missing",
                            f"{where}: step {label!r} is defined by the plans but not attached")
        state = sstates[label][0]
        if sd.get("need", "default") == "default" and state != StepState.SUCCEEDED.value:
            raise Violation(f"{prop}/default-step-not-succeeded",
                            f"{where}: build reported success but {label!r} is "
                            f"{StepState(state).name}")
        if state != StepState.SUCCEEDED.value:
            continue
        # 2. outputs of a succeeded step are F(current inputs)
        for path in sd["out"] + sd.get("amend_out", []):
            if path not in fstates or fstates[path][1]:
                raise Violation(f"{prop}/output-node-missing",
                                f"{where}: output {path} of succeeded {label!r} has no attached "
                                "node")
            if fstates[path][0] != FileState.BUILT.value:
                raise Violation(f"{prop}/output-not-built",
                                f"{where}: output {path} of succeeded {label!r} is "
                                f"{FileState(fstates[path][0]).name}")
            want = H.expected_content(spec, name, path, H.disk_sha, sd=sd)
            have = H.disk_sha(path)
            if have is None:
                raise Violation(f"{prop}/output-file-missing",
                                f"{where}: {path} of succeeded {label!r} is not on disk")
            if have != H.sha(want.encode()):
                raise Violation(
                    f"{prop}/stale-output",
                    f"{where}: {path} of succeeded step {label!r} does not equal F(current "
                    f"inputs): the step was wrongly considered up to date",
                )


def classify(case, records, rec_obj):
    kinds = set()
    for stage in case["stages"][1:]:
        for desc in stage["edit"]:
            kinds.add(desc[0])
            rec_obj.event("edit:" + desc[0])
    last = records[-1].result
    skipped = len(last.tags("SKIP"))
    removed = len(last.tags("REMOVE"))
    rec_obj.event("last-build-skips" if skipped else "last-build-no-skip")
    if (kinds & PLAN_EDITS) and (skipped or removed):
        rec_obj.mark_nontrivial([s["spec"] for s in case["stages"]],
                                sample={"edits": [s["edit"] for s in case["stages"]],
                                        "builds": [{k: v for k, v in s["build"].items()
                                                    if k != "choices"} for s in case["stages"]],
                                        "last_events": [(t, d) for t, d, _ in last.events][:40]})


async def check_history(case, rec, ctx):
    def after_stage(i, r, ledger):
        check_serve_health(PROPERTY, r, i)
        rc = H.returncode_class(r.result.returncode)
        rec.event(f"rc:{rc}")
        if r.result.double_runs:
            # Observation outside the listed properties (see DESIGN.md): a step that was
            # detached while running and re-created by its plan runs twice at the same time.
            rec.event("observed:same-step-running-twice")
        if rc == "OK" and not r.config.get("targets"):
            staleness(r.spec, r.result.tables, PROPERTY, f"stage {i}")

    d2 = None
    d = None
    try:
        try:
            records, ledger, d = await H.run_history(case, ctx, after_stage=after_stage)
        finally:
            d = d or os.getcwd()
        for i, r in enumerate(records):
            check_serve_health(PROPERTY, r, i)
        if len(records) < len(case["stages"]):
            return
        final = records[-1]
        # 1. differential against a build from scratch of the final sources
        srec, d2 = await H.scratch_build(final.spec, ctx, {
            "resources": final.config.get("resources"),
            "keep_going": final.config.get("keep_going", False)})
        check_serve_health(PROPERTY, srec, "scratch")
        rc_inc = H.returncode_class(final.result.returncode)
        rc_scr = H.returncode_class(srec.result.returncode)
        if any(cls == "CyclicError" for _l, _o, cls, _m in srec.result.rejections):
            # The final sources are not a valid project (the edits closed a dependency cycle):
            # which plan trips over it depends on the order of definitions; nothing to compare.
            rec.event("skipped:final-spec-cyclic")
            return
        if _bits(rc_inc) != _bits(rc_scr):
            sig = f"{PROPERTY}/returncode-differs-from-scratch"
            stale = _stale_claim_rejections(final)
            orphan = _succeeded_with_detached_input(final.result.tables)
            if stale and not srec.result.rejections:
                sig = f"{PROPERTY}/declaration-rejected-by-claim-of-step-no-plan-defines"
            elif orphan and "PENDING" in _bits(rc_scr) and "PENDING" not in _bits(rc_inc):
                sig = f"{PROPERTY}/succeeded-step-keeps-input-whose-producer-was-dropped"
            elif _blocked_by_stale_dynamic_input(final) and "PENDING" in _bits(rc_inc) \
                    and "PENDING" not in _bits(rc_scr):
                sig = f"{PROPERTY}/pending-step-blocked-by-dynamic-input-it-no-longer-amends"
            elif "FAILED" in _bits(rc_inc) and "FAILED" not in _bits(rc_scr) \
                    and _optional_failed_for_recorded_dynamic_input(records, srec):
                # Root-cause refinement (recorded finding): an optional step was executed (and
                # failed) only because a consumer still carries the dynamic input it announced
                # in an earlier build, although it can no longer run (an initial input lost its
                # producer) or its edited script no longer announces that input; from scratch
                # the input is never announced and the optional step is not needed.
                sig = f"{PROPERTY}/optional-step-run-for-recorded-dynamic-input"
            elif "FAILED" in _bits(rc_scr) and "FAILED" not in _bits(rc_inc) \
                    and "DRAINED" in rc_inc and _failed_after_redeclaration(final):
                # Root-cause refinement (recorded finding): the step was dispatched under its
                # rerunning creator (it was pending from the previous build) and failed; the
                # creator then re-declared it, which turns a recycled FAILED step into PENDING.
                # The failure has drained the build, but neither the FAILED bit nor the
                # "step(s) failed" warning survives.
                sig = f"{PROPERTY}/failure-forgotten-when-creator-redeclares-the-failed-step"
            raise Violation(
                sig,
                f"incremental build ended {rc_inc}, scratch build of the same sources {rc_scr}; "
                f"edits {[s['edit'] for s in case['stages']]}; rejections in the incremental "
                f"build: {final.result.rejections}; in the scratch build: "
                f"{srec.result.rejections}; succeeded steps with a detached input: {orphan}; "
                "failures: "
                f"{[(d, p[:2]) for t, d, p in final.result.events if t == 'FAIL'][:3]}",
            )
        if rc_scr == "OK":
            g_inc = H.project_graph(final.result.tables)
            g_scr = H.project_graph(srec.result.tables)
            if g_inc != g_scr:
                raise Violation(
                    f"{PROPERTY}/graph-differs-from-scratch",
                    "active workflow after the incremental build differs from the scratch build "
                    f"(edits {[s['edit'] for s in case['stages']]}):\n"
                    + H.diff_facts(g_scr, g_inc),
                )
            for path, entry in srec.after.items():
                if entry["type"] != "file" or path in final.spec["sources"]:
                    continue
                other = final.after.get(path)
                if other is None or other.get("sha") != entry["sha"]:
                    raise Violation(
                        f"{PROPERTY}/output-differs-from-scratch",
                        f"{path}: scratch build has {entry['sha'][:12]}, incremental "
                        f"{None if other is None else other.get('sha', '')[:12]}",
                    )
        classify(case, records, rec)
    finally:
        H.cleanup_dir(ctx, d)
        if d2 is not None:
            H.cleanup_dir(ctx, d2)


def _succeeded_with_detached_input(tables):
    """(step label, input path) pairs: attached SUCCEEDED step whose input node is detached."""
    from stepup.core.enums import StepState

    nodes = {n["i"]: n for n in tables["node"]}
    steps = {s["node"]: s for s in tables["step"]}
    hits = []
    for dep in tables["dependency"]:
        snk = dep["sink"]
        if snk in steps and not nodes[snk]["detached"] and \
                steps[snk]["state"] == StepState.SUCCEEDED.value and \
                nodes[dep["source"]]["detached"]:
            hits.append((nodes[snk]["label"], nodes[dep["source"]]["label"]))
    return sorted(hits)


def _blocked_by_stale_dynamic_input(final):
    """(step label, path): attached PENDING step with an attached PLANNED/OUTDATED dynamic input
    that the step's current script does not announce."""
    from stepup.core.enums import FileState, StepState

    tables = final.result.tables
    spec = final.spec
    by_label = {specgen.step_label(sd)[0]: sd
                for sd in specgen.active_step_defs(spec).values()}
    nodes = {n["i"]: n for n in tables["node"]}
    steps = {s["node"]: s for s in tables["step"]}
    files = {f["node"]: f for f in tables["file"]}
    dynamic = {d["i"] for d in tables["dynamic_dep"]}
    hits = []
    for dep in tables["dependency"]:
        snk, src = dep["sink"], dep["source"]
        if dep["i"] in dynamic and snk in steps and src in files and \
                not nodes[snk]["detached"] and not nodes[src]["detached"] and \
                steps[snk]["state"] == StepState.PENDING.value and \
                files[src]["state"] in (FileState.PLANNED.value, FileState.OUTDATED.value):
            sd = by_label.get(nodes[snk]["label"])
            if sd is not None and nodes[src]["label"] not in sd.get("amend_inp", []):
                hits.append((nodes[snk]["label"], nodes[src]["label"]))
    return sorted(hits)


def _stale_claim_rejections(final):
    """Rejections whose message names, as the other claimant, a step that the final spec does
    not define any more (a stale product of a recycled plan step that has not rerun yet)."""
    import re

    spec = final.spec
    current = {specgen.step_label(sd)[0] for sd in specgen.active_step_defs(spec).values()}
    current |= {specgen.plan_label(p, spec["plans"][p]["workdir"])[0]
                for p in specgen.active_plans(spec)}
    hits = []
    for label, op, cls, msg in final.result.rejections:
        named = re.findall(r"step \((.*?)\)(?= and|\.| )", msg)
        if any(n not in current for n in named):
            hits.append(msg)
    return hits


def _bits(rc):
    return {b for b in rc.split("+") if b in ("FAILED", "PENDING", "INTERNAL")}


def _diff(a, b):
    import difflib

    return "\n".join(list(difflib.unified_diff(a.split("\n"), b.split("\n"), "scratch",
                                               "incremental", lineterm="", n=2))[:80])


def subchecks(tier):
    big = tier == "thorough"
    return [
        SubCheck("history_vs_scratch", check_history,
                 strategy=lambda: specgen.histories(max_steps=6, min_builds=2, max_builds=4),
                 examples=160_000 if big else 3_600),
        SubCheck("env_histories", check_history,
                 strategy=lambda: specgen.histories(max_steps=3, min_builds=3, max_builds=4,
                                                    focus="env"),
                 examples=40_000 if big else 1_000),
        SubCheck("glob_histories", check_history,
                 strategy=lambda: specgen.histories(max_steps=3, min_builds=2, max_builds=4,
                                                    focus="glob"),
                 examples=40_000 if big else 1_000),
        SubCheck("optional_histories", check_history,
                 strategy=lambda: specgen.histories(max_steps=5, min_builds=2, max_builds=4,
                                                    focus="optional"),
                 examples=40_000 if big else 1_000),
    ]


MANIFEST = {
    "engine": "E1-SimStepUp",
    "technique": "model-based property testing: Hypothesis histories of project edits and builds "
                 "on the real director with simulated pure steps and a generated schedule; "
                 "differential against a from-scratch build plus a history-free staleness oracle",
    "level_text": "Exploration of generated edit/build histories (hundreds per quick run, tens "
                  "of thousands thorough) through the real director, scheduler, executor, hash "
                  "and startup code; every build of a history is judged by the staleness oracle "
                  "and the last one also differentially.",
    "level_note": "steps are simulated in-process (launch_command substituted); hash threads "
                  "are real; plans nested up to three levels",
}
